#!/usr/bin/env python3
"""Regenerates /verif/MANIFEST.json from lib/props.py (single source of truth)."""
import json, os, sys
HERE = os.path.dirname(os.path.abspath(__file__))
VERIF = os.path.dirname(HERE)
sys.path.insert(0, HERE)
import props

ALL = ["C%02d" % i for i in range(1, 21)]
NA = props.NOT_APPLICABLE

checks = []
for pid in ALL:
    if pid not in props.PROPS:
        continue
    P = props.PROPS[pid]
    checks.append({
        "property_id": pid,
        "quick_cmd": "bin/check %s --tier quick" % pid,
        "thorough_cmd": "bin/check %s --tier thorough" % pid,
        "evidence_file": "evidence/%s.json" % pid,
        "replay_cmd_template": "bin/check %s --replay {path}" % pid,
        "engine": "contracts",
        "level_claimed": {"category": P["level"], "text": P["level_text"], "design_ref": P.get("design_ref", "DESIGN.md section 2 (%s)" % pid)},
        "level_note": P["level_note"],
        "technique": P["technique"],
    })
na = [{"property_id": pid, "reason": NA.get(pid, "not built yet in this session (see DESIGN.md section 6)")}
      for pid in ALL if pid not in props.PROPS]
m = {
    "version": 1,
    "setup_cmd": "bin/setup",
    "hooks": {
        "guard": "cfg(kani) (set by cargo-kani) and cfg(ipt_verif_rt) (RUSTFLAGS of the replay runner build)",
        "enable": "no hook commits in /repo: bin/check copies /repo's working tree to a scratch directory and injects the "
                  "cfg-guarded child modules and contract attributes there on every run (lib/inject.py)",
        "baseline_off_cmd": "cd /repo && cargo test --workspace --no-fail-fast --offline",
        "source_commits": [],
        "add_only": True,
    },
    "engines": [{"name": "contracts", "path": "bin/check", "serves_properties": [c["property_id"] for c in checks],
                 "kind_free_text": "contract-based deductive verification: Kani function contracts / full-domain harnesses "
                                   "(CBMC) and Verus on mechanically extracted functions; native replay of counterexamples; "
                                   "bounded stand-ins labelled as such"}],
    "checks": checks,
    "not_applicable": na,
    "notes": "fix: commits in /repo are listed in known_findings.txt. Exit codes of bin/check: 0 held, 1 VIOLATION, "
             "2 undecided (never an alarm).",
}
json.dump(m, open(os.path.join(VERIF, "MANIFEST.json"), "w"), indent=1)
print("MANIFEST.json: %d checks, %d not_applicable" % (len(checks), len(na)))
