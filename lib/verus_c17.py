"""C17: Verus file generated on every run from src/hijri_date.rs (mechanical extraction)."""
import os, re
import verus_extract as X

PRELUDE = r'''
use vstd::prelude::*;
verus! {

// ---------- specification: tabular Islamic calendar, integer only (from the statement of C17)
pub open spec fn habs(d: int, m: int, y: int) -> int {
    d + 29 * (m - 1) + m / 2 + 354 * (y - 1) + (3 + 11 * y) / 30 + 227015 - 1
}
pub open spec fn leap(y: int) -> bool { (11 * y + 14) % 30 < 11 }
pub open spec fn mlen(y: int, m: int) -> int { if m % 2 == 1 || (m == 12 && leap(y)) { 30 } else { 29 } }
pub open spec fn ystart(y: int) -> int { habs(1, 1, y) }
pub open spec fn ylen(y: int) -> int { if leap(y) { 355 } else { 354 } }
pub open spec fn rd(year: int, ordinal: int) -> int {
    ordinal + 365 * (year - 1) + (year - 1) / 4 - (year - 1) / 100 + (year - 1) / 400
}
/// (y, m, d) is a well-formed tabular date
pub open spec fn wf(y: int, m: int, d: int) -> bool { 1 <= m <= 12 && 1 <= d <= mlen(y, m) }

// ---------- lemmas that turn the per-function contracts into the property statement
proof fn lemma_year_step(y: int)
    ensures ystart(y + 1) - ystart(y) == ylen(y), 354 <= ylen(y) <= 355,
{
    // (3 + 11(y+1))/30 - (3 + 11y)/30 is 1 exactly in the leap years
    assert((3 + 11 * (y + 1)) / 30 - (3 + 11 * y) / 30 == if (11 * y + 14) % 30 < 11 { 1int } else { 0int }) by {
        let a = 11 * y + 14;
        let q = a / 30;
        let r = a % 30;
        assert(a == 30 * q + r && 0 <= r < 30) by { vstd::arithmetic::div_mod::lemma_fundamental_div_mod(a, 30); }
        assert(3 + 11 * y == 30 * (q - 1) + (r + 19));
        assert(3 + 11 * (y + 1) == 30 * q + r);
        vstd::arithmetic::div_mod::lemma_fundamental_div_mod_converse(3 + 11 * (y + 1), 30, q, r);
        if r < 11 {
            vstd::arithmetic::div_mod::lemma_fundamental_div_mod_converse(3 + 11 * y, 30, q - 1, r + 19);
        } else {
            assert(3 + 11 * y == 30 * q + (r - 11));
            vstd::arithmetic::div_mod::lemma_fundamental_div_mod_converse(3 + 11 * y, 30, q, r - 11);
        }
    }
}

proof fn lemma_ystart_mono(a: int, b: int)
    requires a <= b,
    ensures ystart(a) <= ystart(b), ystart(b) - ystart(a) >= 354 * (b - a), ystart(b) - ystart(a) <= 355 * (b - a),
    decreases b - a,
{
    if a < b {
        lemma_ystart_mono(a, b - 1);
        lemma_year_step(b - 1);
    }
}

/// month m of year y starts at habs(1,m,y); consecutive months are contiguous and the
/// twelfth ends where the next year starts: lengths are 30/29 alternating, 12th is 30 in leap years
proof fn lemma_month_step(y: int, m: int)
    requires 1 <= m <= 12,
    ensures
        m < 12 ==> habs(1, m + 1, y) == habs(1, m, y) + mlen(y, m),
        m == 12 ==> ystart(y + 1) == habs(1, 12, y) + mlen(y, 12),
        habs(1, 1, y) == ystart(y),
{
    lemma_year_step(y);
    if m == 12 {
        assert(habs(1, 12, y) == 1 + 29 * 11 + 6 + 354 * (y - 1) + (3 + 11 * y) / 30 + 227014);
    }
}

/// uniqueness: a well-formed (y,m,d) is determined by its day number (strict lexicographic monotonicity)
proof fn lemma_unique(y1: int, m1: int, d1: int, y2: int, m2: int, d2: int)
    requires wf(y1, m1, d1), wf(y2, m2, d2), habs(d1, m1, y1) == habs(d2, m2, y2),
    ensures y1 == y2, m1 == m2, d1 == d2,
{
    lemma_in_year(y1, m1, d1);
    lemma_in_year(y2, m2, d2);
    if y1 < y2 { lemma_ystart_mono(y1 + 1, y2); }
    if y2 < y1 { lemma_ystart_mono(y2 + 1, y1); }
    assert(y1 == y2);
    if m1 < m2 { lemma_month_mono(y1, m1, m2); }
    if m2 < m1 { lemma_month_mono(y1, m2, m1); }
}

proof fn lemma_month_mono(y: int, a: int, b: int)
    requires 1 <= a < b <= 12,
    ensures habs(1, b, y) >= habs(1, a, y) + mlen(y, a),
    decreases b - a,
{
    if a + 1 < b {
        lemma_month_mono(y, a, b - 1);
        lemma_month_step(y, b - 1);
    } else {
        lemma_month_step(y, a);
    }
}

/// a well-formed date lies inside its year
proof fn lemma_in_year(y: int, m: int, d: int)
    requires wf(y, m, d),
    ensures ystart(y) <= habs(d, m, y) < ystart(y + 1),
{
    if m > 1 { lemma_month_mono(y, 1, m); }
    if m < 12 { lemma_month_mono(y, m, 12); }
    lemma_month_step(y, 12);
    lemma_month_step(y, 1);
}

/// successor: the day after a well-formed date is the next tabular date
proof fn lemma_successor(y: int, m: int, d: int)
    requires wf(y, m, d),
    ensures
        d < mlen(y, m) ==> wf(y, m, d + 1) && habs(d + 1, m, y) == habs(d, m, y) + 1,
        d == mlen(y, m) && m < 12 ==> wf(y, m + 1, 1) && habs(1, m + 1, y) == habs(d, m, y) + 1,
        d == mlen(y, m) && m == 12 ==> wf(y + 1, 1, 1) && habs(1, 1, y + 1) == habs(d, m, y) + 1,
{
    lemma_month_step(y, m);
}

/// 11 leap years in every 30-year cycle; a cycle has 10631 days
proof fn lemma_cycle(y: int)
    ensures ystart(y + 30) - ystart(y) == 10631,
{
    assert((3 + 11 * (y + 30)) / 30 == (3 + 11 * y) / 30 + 11) by {
        let a = 3 + 11 * y;
        vstd::arithmetic::div_mod::lemma_fundamental_div_mod(a, 30);
        vstd::arithmetic::div_mod::lemma_fundamental_div_mod_converse(a + 330, 30, a / 30 + 11, a % 30);
    }
}

// ---------- stand-ins for chrono (assumed contracts on a dependency; the accessors used by
// greg_abs_date are exercised against chrono's real code by the Kani obligation c17_greg_abs_date)
#[derive(Clone, Copy)]
pub struct NaiveDate { pub y: i32, pub o: u32, pub mo: u32, pub dy: u32 }
impl NaiveDate {
    #[verifier::external_body]
    pub fn year(&self) -> (r: i32) ensures r == self.y { unimplemented!() }
    #[verifier::external_body]
    pub fn month(&self) -> (r: u32) ensures r == self.mo { unimplemented!() }
    #[verifier::external_body]
    pub fn day(&self) -> (r: u32) ensures r == self.dy { unimplemented!() }
    #[verifier::external_body]
    pub fn from_ymd_opt(y: i32, m: u32, d: u32) -> (r: Option<NaiveDate>) { unimplemented!() }
}
pub assume_specification[ i32::abs ](x: i32) -> (r: i32)
    requires x != i32::MIN,
    ensures r == if x < 0 { -x } else { x as int };
pub assume_specification[ i32::rem_euclid ](x: i32, rhs: i32) -> (r: i32)
    requires rhs > 0,
    ensures r == (x as int) % (rhs as int);
'''


def gen(repo):
    src = open(os.path.join(repo, "src", "hijri_date.rs")).read()
    ty, val = X.find_const(src, "HIJRI_EPOCH")
    out = PRELUDE
    out += "\nconst HIJRI_EPOCH: %s = %s;\n" % (ty, val)
    meta_all = {"edits": [], "outlined": []}
    # struct HijriDate re-emitted (field list from the source)
    m = re.search(r"pub struct HijriDate \{(.*?)\n\}", src, re.S)
    if not m:
        raise X.LostAnchor("struct HijriDate")
    fields = [re.sub(r"^\s*pub\s+", "", f.strip()) for f in X.strip_comments(m.group(1)).split(",") if f.strip()]
    out += "pub struct HijriDate {\n" + "".join("    pub %s,\n" % f for f in fields) + "}\n\n"

    # float leaves: contracts discharged by Kani (c17_abs_m01..12, c17_greg_abs_date)
    out += X.external_fn("hijri_abs_date", ["day: u8", "month: u8", "year: i32"], "i32",
                         ["1 <= month <= 12", "1 <= day <= 30", "-700 <= year <= 10700"],
                         ["r == habs(day as int, month as int, year as int)"])
    out += X.external_fn("greg_abs_date", ["date: NaiveDate"], "i32",
                         ["1 <= date.y <= 9999"], ["r == rd(date.y as int, date.o as int)"])
    specs = [
        dict(fn="is_hijri_leap_year", requires=["-700 <= year <= 10700"], ensures=["r == leap(year as int)"]),
        dict(fn="days_in_month", requires=["1 <= month <= 12", "-700 <= year <= 10700"],
             ensures=["r == mlen(year as int, month as int)"]),
        dict(fn="hijri_year",
             requires=["1 <= greg_date <= 3652059"],
             ensures=["ystart(r as int) <= greg_date < ystart(r as int + 1)", "-660 <= r <= 10650"],
             outline=[dict(marker="as f64", name="outlined_hijri_year_1", args=["greg_date: i32"], ret="i32",
                           requires=["HIJRI_EPOCH <= greg_date <= 3652059"],
                           ensures=["-1 <= r <= 10650", "ystart(r as int) <= greg_date"])],
             loops=[dict(invariant=["1 <= greg_date < 227015", "-660 <= year <= 0", "greg_date < ystart(year as int + 1)"],
                         decreases="year + 700",
                         proof="if year <= -659 { lemma_ystart_mono(year as int, -659); assert(ystart(-659) < 1) by (compute); }"),
                    dict(invariant=["227015 <= greg_date <= 3652059", "-1 <= year <= 10650", "ystart(year as int) <= greg_date"],
                         decreases="10700 - year",
                         proof="if year >= 10650 { lemma_ystart_mono(10651, year as int + 1); assert(ystart(10651) > 3652059) by (compute); }")]),
        dict(fn="month_val",
             requires=["-660 <= year <= 10650", "ystart(year as int) <= greg_date < ystart(year as int + 1)"],
             ensures=["1 <= r <= 12", "habs(1, r as int, year as int) <= greg_date < habs(1, r as int, year as int) + mlen(year as int, r as int)"],
             rewrites=[("let mut month = 1;", "let mut month: u8 = 1;", "once")],
             loops=[dict(invariant=["1 <= month <= 12", "habs(1, month as int, year as int) <= greg_date",
                                    "-660 <= year <= 10650", "greg_date < ystart(year as int + 1)"],
                         decreases="13 - month",
                         proof="lemma_month_step(year as int, month as int);")]),
        dict(fn="adj_pre_epoch", requires=["-660 <= year <= 10650"],
             ensures=["r.1 == (year <= 0)", "r.0 as int == (if year <= 0 { 1 - year } else { year as int })"]),
        dict(fn="from", rename="hijri_from",
             rewrites=[("-> Self", "-> HijriDate"), ("Self {", "HijriDate {")],
             requires=["1 <= value.y <= 9999", "1 <= rd(value.y as int, value.o as int) <= 3652059"],
             ensures=[
                 "wf(hyear(r), r.month as int, r.day as int)",
                 "habs(r.day as int, r.month as int, hyear(r)) == rd(value.y as int, value.o as int)",
                 "r.pre_epoch == (hyear(r) <= 0)", "r.year >= 1",
                 "r.weekday as int == rd(value.y as int, value.o as int) % 7 + 1",
                 "1 <= r.weekday <= 7",
                 "r.date == value"]),
    ]
    out += "pub open spec fn hyear(h: HijriDate) -> int { if h.pre_epoch { 1 - h.year as int } else { h.year as int } }\n\n"
    fn_texts = []
    for s in specs:
        t, meta = X.extract(src, s)
        meta_all["edits"] += ["%s: %s" % (s["fn"], e) for e in meta["edits"]]
        for o in meta["outlined"]:
            meta_all["outlined"].append(o)
            out += X.external_fn(o["name"], o["args"], o["ret"], o["requires"], o["ensures"])
        fn_texts.append(t)
    out += "\n".join(fn_texts)
    # property-level lemma: the contract of `from` pins the result down completely
    out += r'''
/// Property statement as a lemma over the contract of `from`: any two well-formed results
/// for the same day number coincide (one-to-one), i.e. the result IS the tabular date.
proof fn lemma_from_is_tabular(a: HijriDate, b: HijriDate, rdn: int)
    requires
        wf(hyear(a), a.month as int, a.day as int), habs(a.day as int, a.month as int, hyear(a)) == rdn,
        wf(hyear(b), b.month as int, b.day as int), habs(b.day as int, b.month as int, hyear(b)) == rdn,
    ensures hyear(a) == hyear(b), a.month == b.month, a.day == b.day,
{
    lemma_unique(hyear(a), a.month as int, a.day as int, hyear(b), b.month as int, b.day as int);
}
'''
    vac = [("hijri_year", ["greg_date: i32"], ["1 <= greg_date <= 3652059"]),
           ("month_val", ["greg_date: i32", "year: i32"], ["-660 <= year <= 10650", "ystart(year as int) <= greg_date < ystart(year as int + 1)"]),
           ("hijri_from", ["value: NaiveDate"], ["1 <= value.y <= 9999", "1 <= rd(value.y as int, value.o as int) <= 3652059"])]
    for n, a, r in vac:
        out += X.vacuity_fn(n, a, r)
    out += "\n} // verus!\nfn main() {}\n"
    return out, meta_all


VOB = dict(
    name="c17_hijri",
    gen=gen,
    obligations=["is_hijri_leap_year", "days_in_month", "hijri_year", "month_val", "adj_pre_epoch", "hijri_from",
                 "lemma_year_step", "lemma_ystart_mono", "lemma_month_step", "lemma_month_mono", "lemma_in_year",
                 "lemma_unique", "lemma_successor", "lemma_cycle", "lemma_from_is_tabular"],
    vacuity=["hijri_year", "month_val", "hijri_from"],
    clauses={
        "is_hijri_leap_year": "leap rule == (11y+14) mod 30 < 11 with floor modulus (also for years <= 0)",
        "days_in_month": "30/29 alternating, 12th month 30 in leap years",
        "hijri_year": "result y satisfies start(y) <= day number < start(y+1); both loops closed by invariants (unbounded), terminate",
        "month_val": "1<=m<=12 and month m of the year contains the day number; every call to hijri_abs_date within its precondition (m<=12)",
        "adj_pre_epoch": "year <= 0 maps to (1 - year, true) else (year, false)",
        "hijri_from": "From<NaiveDate>: (year', month, day) is a well-formed tabular date with the Gregorian date's day number; flag, weekday, no overflow / truncation / panic",
        "lemma_unique": "well-formed tabular dates are determined by their day number (one-to-one)",
        "lemma_successor": "successive day numbers map to successive tabular days",
        "lemma_cycle": "30-year cycle has 10631 days (11 leap years)",
        "lemma_from_is_tabular": "contract of From pins the result: it is THE tabular date",
    },
    cap=300,
)


def pregen(repo):
    """Kani twin of the outlined statement: the SAME statement text, as a function, with the
    contract the Verus file assumes for it. Written into the scratch copy only."""
    path = os.path.join(repo, "src", "verif_kani", "gen_c17_outlined.rs")
    try:
        src = open(os.path.join(repo, "src", "hijri_date.rs")).read()
        _, meta = gen(repo)
        o = meta["outlined"][0]
        text = ("// GENERATED on every run by /verif/lib/verus_c17.py from src/hijri_date.rs (fn hijri_year):\n"
                "// the statement `%s;` verbatim.\n"
                "impl HijriDate {\n    pub(crate) fn %s(%s) -> %s {\n        %s\n    }\n}\n"
                "#[kani::proof]\n#[kani::solver(kissat)]\npub fn c17_outlined_hijri_year_1() {\n"
                "    let greg_date: i32 = kani::any();\n"
                "    kani::assume(greg_date >= HijriDate::HIJRI_EPOCH && greg_date <= 3652059);\n"
                "    crate::vcover!();\n"
                "    let r = HijriDate::%s(greg_date);\n"
                "    assert!(-1 <= r && r <= 10650, \"C17 year estimate in range\");\n"
                "    assert!(year_start(r as i64) <= greg_date as i64, \"C17 year estimate never overshoots: start(est) <= day number\");\n"
                "}\n" % (re.sub(r"\s+", " ", o["stmt"]), o["name"], ", ".join(o["args"]), o["ret"], o["rhs"], o["name"]))
    except (X.LostAnchor, IndexError, OSError) as e:
        text = "// extraction failed: %s (C17 reports the lost anchor)\n" % e
    open(path, "w").write(text)
