"""Mechanical extraction of real functions from the working tree into a single Verus file.

What the extraction does to a function (and nothing else; stated in DESIGN.md 1.2):
  (a) `-> T` becomes `-> (r: T)`;
  (b) requires/ensures/decreases are inserted between signature and body; invariant /
      decreases after the n-th `while` header; a `proof { .. }` hint block at the start
      of the n-th loop body or of the fn body;
  (c) doc comments / attributes above the fn are dropped; `pub`/`pub(crate)` dropped;
  (d) `Self::` path prefixes are dropped (the methods become free functions; associated
      consts are re-emitted as free consts with the value found in the source);
  (e) float-cast outlining: ONE statement containing a given marker is replaced by a call
      to an external_body function; the same statement text is emitted verbatim into a
      Kani twin so the contract assumed in Verus is the one Kani discharges;
  (f) optional literal token rewrites listed per function (each must match exactly once
      or the anchor is lost) for constructs outside Verus' subset.
Everything else (statement order, conditions, arithmetic) is the byte-identical source.
"""
import json, re


class LostAnchor(Exception):
    pass


def _scan(text, start):
    """yield (index, char, depth_info) skipping comments, strings, chars"""
    i = start
    n = len(text)
    while i < n:
        c = text[i]
        if text.startswith("//", i):
            j = text.find("\n", i)
            i = n if j < 0 else j
            continue
        if text.startswith("/*", i):
            j = text.find("*/", i)
            i = n if j < 0 else j + 2
            continue
        if c == '"':
            i += 1
            while i < n and text[i] != '"':
                i += 2 if text[i] == "\\" else 1
            i += 1
            continue
        if c == "'":
            # char literal or lifetime
            m = re.match(r"'(\\.|[^\\'])'", text[i:])
            if m:
                i += m.end()
                continue
        yield i, c
        i += 1


def slice_fn(text, name):
    """returns (sig, body) of `fn name`; body includes the outer braces"""
    ms = [m for m in re.finditer(r"\bfn\s+%s\s*[(<]" % re.escape(name), text)]
    if len(ms) != 1:
        raise LostAnchor("fn %s: %d matches" % (name, len(ms)))
    start = ms[0].start()
    depth = 0
    body_start = None
    for i, c in _scan(text, start):
        if c in "([":
            depth += 1
        elif c in ")]":
            depth -= 1
        elif c == "{" and depth == 0:
            body_start = i
            break
        elif c == ";" and depth == 0:
            raise LostAnchor("fn %s has no body" % name)
    if body_start is None:
        raise LostAnchor("fn %s: body not found" % name)
    d = 0
    end = None
    for i, c in _scan(text, body_start):
        if c == "{":
            d += 1
        elif c == "}":
            d -= 1
            if d == 0:
                end = i + 1
                break
    if end is None:
        raise LostAnchor("fn %s: unbalanced braces" % name)
    return text[start:body_start].rstrip(), text[body_start:end]


def strip_comments(s):
    out = []
    last = 0
    i = 0
    n = len(s)
    res = []
    pos = 0
    for i, c in _scan(s, 0):
        res.append((i, c))
    # rebuild keeping strings: simpler approach - remove // and /* */ outside strings
    out = []
    i = 0
    while i < n:
        if s.startswith("//", i):
            j = s.find("\n", i)
            i = n if j < 0 else j
            continue
        if s.startswith("/*", i):
            j = s.find("*/", i)
            i = n if j < 0 else j + 2
            continue
        if s[i] == '"':
            j = i + 1
            while j < n and s[j] != '"':
                j += 2 if s[j] == "\\" else 1
            out.append(s[i:j + 1])
            i = j + 1
            continue
        out.append(s[i])
        i += 1
    return "".join(out)


def find_const(text, name):
    m = re.search(r"\bconst\s+%s\s*:\s*([A-Za-z0-9_]+)\s*=\s*([^;]+);" % re.escape(name), text)
    if not m:
        raise LostAnchor("const %s" % name)
    return m.group(1), m.group(2).strip()


def _while_headers(body):
    """positions (start_of_while, index_of_open_brace) of each `while` in source order"""
    res = []
    toks = list(_scan(body, 0))
    idx = {i: k for k, (i, c) in enumerate(toks)}
    for m in re.finditer(r"\bwhile\b", body):
        if m.start() not in idx:
            continue  # inside comment/string
        depth = 0
        ob = None
        for i, c in _scan(body, m.end()):
            if c in "([":
                depth += 1
            elif c in ")]":
                depth -= 1
            elif c == "{" and depth == 0:
                ob = i
                break
        if ob is None:
            raise LostAnchor("while without body")
        res.append((m.start(), ob))
    return res


def extract(src_text, spec):
    """-> (verus_text_of_fn, meta)   meta: {'outlined': [(name, args, ret, stmt_rhs)], 'dropped': [...]}"""
    name = spec["fn"]
    sig, body = slice_fn(src_text, name)
    meta = {"outlined": [], "edits": []}
    body = strip_comments(body)
    sig = strip_comments(sig)
    # (f) literal rewrites: a pure respelling is applied to every occurrence (at least one must exist);
    #     a rewrite given as (old, new, "once") must match exactly once
    for rw in spec.get("rewrites", []):
        old, new = rw[0], rw[1]
        once = len(rw) > 2 and rw[2] == "once"
        nb, ns = body.count(old), sig.count(old)
        if nb + ns == 0 or (once and nb + ns != 1):
            raise LostAnchor("rewrite anchor %r in fn %s: %d matches" % (old, name, nb + ns))
        body = body.replace(old, new)
        sig = sig.replace(old, new)
        meta["edits"].append("rewrite %r -> %r (%d occurrence(s))" % (old, new, nb + ns))
    # (f') optional respelling (spec key "opt_neg"): unary minus applied to a plain name / path in argument or initialiser position
    #      (`-PI_DEG`, `-x`) is spelled `fneg(PI_DEG)`; names followed by `.`, `(` or `[` are left alone (precedence would change)
    if spec.get("opt_neg"):
        body, n = re.subn(r"([(,={]\s*)-([A-Za-z_][\w:]*)(?![\w(.\[:])", r"\1fneg(\2)", body)
        if n:
            meta["edits"].append("unary minus on a plain name spelled fneg(..) (%d occurrence(s))" % n)
    # (a) named return
    m = re.search(r"->\s*(.+)$", sig, re.S)
    if m:
        sig = sig[:m.start()] + "-> (r: %s)" % m.group(1).strip()
    if spec.get("rename"):
        sig = re.sub(r"\bfn\s+%s\b" % re.escape(name), "fn %s" % spec["rename"], sig)
    # (e) outlining
    for o in spec.get("outline", []):
        marker = o["marker"]
        hits = [mm.start() for mm in re.finditer(re.escape(marker), body)]
        if len(hits) != 1:
            raise LostAnchor("outline marker %r in fn %s: %d matches" % (marker, name, len(hits)))
        h = hits[0]
        # statement = from after previous ';' or '{' or '}' to next ';' at depth 0
        s = max(body.rfind(";", 0, h), body.rfind("{", 0, h), body.rfind("}", 0, h)) + 1
        depth = 0
        e = None
        for i, c in _scan(body, s):
            if c in "([{":
                depth += 1
            elif c in ")]}":
                depth -= 1
            elif c == ";" and depth == 0:
                e = i
                break
        if e is None:
            raise LostAnchor("outline statement end in fn %s" % name)
        stmt = body[s:e].strip()
        mm = re.match(r"^(let\s+(mut\s+)?[A-Za-z_][A-Za-z0-9_]*(\s*:\s*[A-Za-z0-9_]+)?|[A-Za-z_][A-Za-z0-9_]*)\s*=\s*(.*)$", stmt, re.S)
        if not mm:
            raise LostAnchor("outline statement shape in fn %s: %r" % (name, stmt))
        lhs, rhs = mm.group(1), mm.group(4).strip()
        # free identifiers of rhs must be the declared args or consts
        ids = set(re.findall(r"(?<![\w.:])([a-z_][a-z0-9_]*)\b(?!\s*\(|::)", rhs)) - {"as", "f64", "i32", "i64", "u8", "usize", "u32", "u64"}
        argnames = [a.split(":")[0].strip() for a in o["args"]]
        if not ids <= set(argnames):
            raise LostAnchor("outlined statement in fn %s uses %s, expected only %s" % (name, sorted(ids), argnames))
        call = "%s = %s(%s)" % (lhs, o["name"], ", ".join(argnames))
        body = body[:s] + "\n" + " " * 8 + call + body[e:]
        meta["outlined"].append(dict(name=o["name"], args=o["args"], ret=o["ret"], rhs=rhs, stmt=stmt,
                                     requires=o.get("requires", []), ensures=o.get("ensures", [])))
        meta["edits"].append("outlined statement `%s;` as %s" % (re.sub(r"\s+", " ", stmt), o["name"]))
    # (g) optional: compound assignment on plain identifiers spelled out (x op= e;  ->  x = x op (e);)
    if spec.get("expand_opassign"):
        def _exp(m):
            return "%s%s = %s %s (%s);" % (m.group(1), m.group(2), m.group(2), m.group(3), m.group(4).strip())
        body, n = re.subn(r"(^|[\s{;])([A-Za-z_][A-Za-z0-9_]*)\s*([-+*/])=\s*([^;]+);", _exp, body)
        if n:
            meta["edits"].append("%d compound assignment(s) spelled out (x op= e -> x = x op (e))" % n)
    # (d) Self::
    body = re.sub(r"\bSelf::", "", body)
    sig = re.sub(r"\bSelf::", "", sig)
    # (b) loops
    loops = spec.get("loops", [])
    hdrs = _while_headers(body)
    if len(hdrs) != len(loops) and loops:
        raise LostAnchor("fn %s has %d while loops, contract table expects %d" % (name, len(hdrs), len(loops)))
    for (ws, ob), L in reversed(list(zip(hdrs, loops))):
        ann = ""
        if L.get("invariant"):
            ann += "\n            invariant " + ", ".join(L["invariant"]) + ","
        if L.get("decreases"):
            ann += "\n            decreases " + L["decreases"] + ","
        inner = ""
        if L.get("body_start"):
            inner += "\n            " + L["body_start"]
        if L.get("proof"):
            inner += "\n            proof { " + L["proof"] + " }"
        # matching close brace of the loop body
        d = 0
        cb = None
        for i, c in _scan(body, ob):
            if c == "{":
                d += 1
            elif c == "}":
                d -= 1
                if d == 0:
                    cb = i
                    break
        if cb is None:
            raise LostAnchor("while body end in fn %s" % name)
        tail = body[cb + 1:]
        if L.get("proof_after"):
            tail = "\n        proof { " + L["proof_after"] + " }" + tail
        inner_end = ""
        if L.get("proof_end"):
            inner_end = "    proof { " + L["proof_end"] + " }\n        "
        body = body[:ob].rstrip() + ann + "\n        {" + inner + body[ob + 1:cb] + inner_end + "}" + tail
    # fn-level clauses
    clauses = ""
    if spec.get("requires"):
        clauses += "\n    requires " + ", ".join(spec["requires"]) + ","
    if spec.get("ensures"):
        clauses += "\n    ensures " + ", ".join(spec["ensures"]) + ","
    if spec.get("decreases"):
        clauses += "\n    decreases " + spec["decreases"] + ","
    if spec.get("body_proof"):
        body = "{\n    proof { " + spec["body_proof"] + " }" + body[1:]
    if spec.get("post_proof"):
        # hint placed before the final expression is not generally possible mechanically; only body start supported
        pass
    sig = re.sub(r"^\s*pub(\([a-z]+\))?\s+", "", sig)
    attr = "".join("#[%s]\n" % a for a in spec.get("attrs", []))
    return attr + sig + clauses + "\n" + body + "\n", meta


def external_fn(name, args, ret, requires, ensures):
    s = "#[verifier::external_body]\nfn %s(%s) -> (r: %s)" % (name, ", ".join(args), ret)
    if requires:
        s += "\n    requires " + ", ".join(requires) + ","
    if ensures:
        s += "\n    ensures " + ", ".join(ensures) + ","
    s += "\n{ unimplemented!() }\n"
    return s


def vacuity_fn(name, args, requires):
    """must FAIL: if it verifies, the precondition is contradictory"""
    s = "proof fn vacuity_%s(%s)" % (name, ", ".join(args))
    if requires:
        s += "\n    requires " + ", ".join(requires) + ","
    s += "\n{ assert(false); }\n"
    return s


# ---------------------------------------------------------------------------- classify
def fn_spans(text):
    """line ranges of top-level fns in the generated file: [(name, first_line, last_line)]"""
    spans = []
    for m in re.finditer(r"^(?:#\[[^\]]*\]\s*)*(?:pub\s+)?(?:open\s+|closed\s+)?(?:broadcast\s+)?(?:spec|proof|exec)?\s*fn\s+([A-Za-z_0-9]+)", text, re.M):
        name = m.group(1)
        try:
            sig, body = slice_fn(text[m.start():], name)
        except LostAnchor:
            continue
        l0 = text.count("\n", 0, m.start()) + 1
        l1 = l0 + (sig + body).count("\n") + 1
        spans.append((name, l0, l1))
    return spans


def classify(vob, text, meta, rc, out, secs):
    items = []
    mj = re.search(r"(?m)^\{\n  \"", out)
    data = None
    if mj:
        try:
            data = json.loads(out[mj.start():])
        except Exception:
            data = None
    if data is None:
        return dict(status="undecided", detail="verus gave no JSON (rc=%s): %s" % (rc, out[-600:]), secs=secs, items=[])
    if data.get("verification-results", {}).get("encountered-vir-error") or "times-ms" not in data:
        errs = [l for l in out.split("\n") if l.startswith("error")]
        return dict(status="undecided", detail="verus could not process the extracted text: " + " | ".join(errs[:6]),
                    secs=secs, items=[])
    # error diagnostics -> line numbers
    diag = []
    cur = None
    for line in out[:mj.start()].split("\n"):
        if line.startswith("error") or line.startswith("note: "):
            cur = dict(msg=line, lines=[])
            diag.append(cur)
        m = re.match(r"\s+--> [^:]+:(\d+):", line)
        if m and cur is not None:
            cur["lines"].append(int(m.group(1)))
    rustc_errs = [d["msg"] for d in diag if re.match(r"error\[E\d+\]", d["msg"])]
    if rustc_errs:
        # the extracted text does not compile (e.g. it refers to an item the extractor does not know about):
        # nothing was verified, which is "cannot decide", not a refutation
        return dict(status="undecided", detail="extracted text does not compile: " + " | ".join(rustc_errs[:4]), secs=secs, items=[])
    spans = fn_spans(text)
    per_fn = {}
    try:
        for mod in data["times-ms"]["smt"]["smt-run-module-times"]:
            for fb in mod.get("function-breakdown", []):
                per_fn[fb["function"].split("::")[-1]] = fb
    except Exception:
        pass
    failed = {}
    for d in diag:
        if not d["msg"].startswith("error") or "aborting due to" in d["msg"]:
            continue
        for ln in d["lines"][:1]:
            for (name, l0, l1) in spans:
                if l0 <= ln <= l1:
                    failed.setdefault(name, []).append(d["msg"] + " (generated line %d: %s)" % (ln, text.split("\n")[ln - 1].strip()[:120]))
    expect_fail = set("vacuity_" + v for v in vob.get("vacuity", []))
    clauses = vob.get("clauses", {})
    for name in vob["obligations"]:
        fb = per_fn.get(name)
        t = (fb or {}).get("time-micros", 0) / 1e6
        if name in failed:
            msg = "; ".join(failed[name])[:800]
            st = "undecided" if re.search(r"rlimit|resource limit|timed out", msg, re.I) else "refuted"
            items.append(dict(name=name, status=st, detail=msg, secs=t, clause=clauses.get(name, "")))
        elif fb is not None and fb.get("success"):
            items.append(dict(name=name, status="discharged", detail="", secs=t, clause=clauses.get(name, "")))
        elif fb is None and name in [s[0] for s in spans] and data["verification-results"].get("errors", 1) == len(
                [n for n in failed]) :
            # functions without SMT queries (trivial) are reported verified by absence of errors
            items.append(dict(name=name, status="discharged", detail="no SMT query needed", secs=0, clause=clauses.get(name, "")))
        else:
            items.append(dict(name=name, status="undecided", detail="no verdict for this function in verus output",
                              secs=t, clause=clauses.get(name, "")))
    # vacuity guards must fail
    for v in sorted(expect_fail):
        if v not in failed:
            items.append(dict(name=v, status="undecided", detail="vacuity guard verified: precondition is contradictory",
                              secs=0, clause="reachability of precondition"))
    # unexpected failures in functions that are not obligations and not vacuity guards (lemmas)
    for name in failed:
        if vob.get("ignore_other_failures"):
            continue
        if name not in vob["obligations"] and name not in expect_fail:
            items.append(dict(name=name, status="undecided", detail="lemma failed: " + failed[name][0][:300], secs=0,
                              clause="supporting lemma"))
    return dict(status="ok", detail="", secs=secs, items=items, edits=meta.get("edits", []),
                outlined=[o.get("stmt") for o in meta.get("outlined", [])])
