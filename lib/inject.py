#!/usr/bin/env python3
"""Mechanical, add-only injection of verification modules into a scratch copy of /repo.

What it does to the copy (and only to the copy, /repo is never written):
  1. rsync of /repo's *current working tree* (minus target/ and .git/).
  2. For every file /verif/kani/<stem>.rs that has a matching source file (table
     CHILD_MODULES), one line is APPENDED to that source file:
         #[cfg(kani)] #[path = "<abs>/verif_kani/<stem>.rs"] mod verif_kani_child;
     A child module sees the private items of its parent, so no visibility edit
     is needed and function bodies stay byte-identical.
     Same for /verif/rt/<stem>.rs under cfg(ipt_verif_rt) (native replay runner).
  3. lib.rs gets the crate-level feature gate Kani's loop contracts need, and the
     two root modules `verif_kani` / `verif_rt`.
  4. Contract attributes (#[cfg_attr(kani, kani::requires(..))] ...) listed in
     /verif/contracts/kani_contracts.json are inserted on the line above the
     anchored `fn`.  A missing anchor raises LostAnchor (exit 2, never a VIOLATION).
  5. Map substitution: in prayer_times/{hours,ext_lat,mod,params}.rs the whole-word
     token HashMap becomes VMap; under cfg(kani) VMap is the 7-slot direct-indexed
     map of verif_kani/vmap.rs, otherwise it is std's HashMap (alias).  This is the
     single place where tokens are rewritten; stated in DESIGN.md section 1.1.
"""
import json, os, re, shutil, subprocess, sys

VERIF = os.path.dirname(os.path.dirname(os.path.abspath(__file__)))

# source file (relative to src/)  ->  stem of the child module file
CORE_CHILDREN = {"astro"}   # constructors for the astro types used by the shared helpers in kani/mod.rs

CHILD_MODULES = {
    "lib.rs": "lib_root",
    "angle.rs": "angle",
    "hijri_date.rs": "hijri_date",
    "geo/coordinates.rs": "coordinates",
    "geo/weather.rs": "weather",
    "geo/julian_day.rs": "julian_day",
    "geo/astro.rs": "astro",
    "geo/qibla.rs": "qibla",
    "prayer_times/date.rs": "date",
    "prayer_times/hours.rs": "hours",
    "prayer_times/ext_lat.rs": "ext_lat",
    "prayer_times/mod.rs": "pt_mod",
    "prayer_times/params.rs": "params",
}
MAP_SUBST_FILES = ["prayer_times/hours.rs", "prayer_times/ext_lat.rs",
                   "prayer_times/mod.rs", "prayer_times/params.rs"]


class LostAnchor(Exception):
    pass


def copy_tree(repo, dest):
    os.makedirs(dest, exist_ok=True)
    subprocess.run(["rsync", "-a", "--delete", "--exclude", "/target", "--exclude", "/.git",
                    repo.rstrip("/") + "/", dest.rstrip("/") + "/"], check=True)


def _subst_hashmap(text):
    out = []
    in_use = False
    for line in text.split("\n"):
        stripped = line.lstrip()
        if stripped.startswith("use ") or in_use:
            # keep std's HashMap importable under a private alias
            line2 = re.sub(r"\bHashMap\b", "HashMap as VMapStd_", line)
            in_use = ";" not in line
            out.append(line2)
        else:
            out.append(re.sub(r"\bHashMap\b", "VMap", line))
    return "\n".join(out)


def inject(dest, with_kani=True, with_rt=True, map_subst=True, kani_needed=None):
    """kani_needed: stems of the child/root harness modules to compile (None = all). Harness modules of other
    properties are left out so that a change which breaks their compilation cannot make this property undecided."""
    src = os.path.join(dest, "src")
    report = {"appended_child_modules": [], "contracts_inserted": [], "map_subst": []}
    # copy module files
    for sub, srcdir in (("verif_kani", "kani"), ("verif_rt", "rt")):
        d = os.path.join(src, sub)
        if os.path.isdir(d):
            shutil.rmtree(d)
        shutil.copytree(os.path.join(VERIF, srcdir), d)
    # contract attributes
    cpath = os.path.join(VERIF, "contracts", "kani_contracts.json")
    contracts = json.load(open(cpath)) if os.path.exists(cpath) else []
    by_file = {}
    for c in contracts:
        by_file.setdefault(c["file"], []).append(c)
    for rel, cs in by_file.items():
        p = os.path.join(src, rel)
        if not os.path.exists(p):
            raise LostAnchor("file %s" % rel)
        lines = open(p).read().split("\n")
        for c in cs:
            pat = re.compile(r"^\s*(pub(\([a-z]+\))?\s+)?fn\s+%s\s*[(<]" % re.escape(c["fn"]))
            idx = [i for i, l in enumerate(lines) if pat.match(l)]
            if len(idx) != 1:
                raise LostAnchor("fn %s in %s (%d matches)" % (c["fn"], rel, len(idx)))
            i = idx[0]
            if "loop" in c:
                # n-th `while` (1-based) after the fn anchor, inside that fn (up to the next fn)
                n = 0
                j = i + 1
                found = None
                while j < len(lines) and not re.match(r"^\s*(pub(\([a-z]+\))?\s+)?fn\s", lines[j]):
                    if re.match(r"^\s*while\b", lines[j]):
                        n += 1
                        if n == c["loop"]:
                            found = j
                            break
                    j += 1
                if found is None:
                    raise LostAnchor("while #%d of fn %s in %s" % (c["loop"], c["fn"], rel))
                i = found
            indent = re.match(r"^\s*", lines[i]).group(0)
            add = [indent + "#[cfg_attr(kani, %s)]" % a for a in c["attrs"]]
            lines[i:i] = add
            report["contracts_inserted"].append("%s::%s (%d attrs)" % (rel, c["fn"], len(add)))
        open(p, "w").write("\n".join(lines))
    # map substitution
    if map_subst:
        for rel in MAP_SUBST_FILES:
            p = os.path.join(src, rel)
            if not os.path.exists(p):
                raise LostAnchor("file %s" % rel)
            t = open(p).read()
            n = len(re.findall(r"\bHashMap\b", t))
            t = _subst_hashmap(t)
            t += ("\n#[cfg(kani)]\n#[allow(unused_imports)]\nuse crate::verif_kani::vmap::VMap;\n"
                  "#[cfg(not(kani))]\n#[allow(unused_imports)]\nuse self::VMapStd_ as VMap;\n")
            open(p, "w").write(t)
            report["map_subst"].append("%s: %d tokens" % (rel, n))
    # child modules
    for rel, stem in CHILD_MODULES.items():
        p = os.path.join(src, rel)
        if not os.path.exists(p):
            raise LostAnchor("file %s" % rel)
        t = open(p).read()
        add = ""
        kf = os.path.join(src, "verif_kani", "child_%s.rs" % stem)
        if with_kani and os.path.exists(kf) and (kani_needed is None or stem in kani_needed or stem in CORE_CHILDREN):
            add += '\n#[cfg(kani)]\n#[path = "%s"]\npub(crate) mod verif_kani_child;\n' % kf
        rf = os.path.join(src, "verif_rt", "child_%s.rs" % stem)
        if with_rt and os.path.exists(rf):
            add += '\n#[cfg(ipt_verif_rt)]\n#[path = "%s"]\npub(crate) mod verif_rt_child;\n' % rf
        if add:
            open(p, "w").write(t + add)
            report["appended_child_modules"].append(rel)
    # crate root
    p = os.path.join(src, "lib.rs")
    t = open(p).read()
    head = "#![cfg_attr(kani, feature(stmt_expr_attributes, proc_macro_hygiene))]\n#![cfg_attr(kani, allow(unused))]\n"
    tail = ""
    if with_kani and os.path.exists(os.path.join(src, "verif_kani", "mod.rs")):
        tail += "\n#[cfg(kani)]\npub(crate) mod verif_kani;\n"
        if kani_needed is not None and "c18" not in kani_needed:
            mp = os.path.join(src, "verif_kani", "mod.rs")
            mtxt = open(mp).read().replace("pub mod c18;\n", "")
            open(mp, "w").write(mtxt)
    if with_rt and os.path.exists(os.path.join(src, "verif_rt", "mod.rs")):
        tail += "\n#[cfg(ipt_verif_rt)]\npub mod verif_rt;\n"
        bind = os.path.join(src, "bin")
        os.makedirs(bind, exist_ok=True)
        open(os.path.join(bind, "rtcheck.rs"), "w").write(
            "#[cfg(ipt_verif_rt)]\nfn main() { islamic_prayer_times::verif_rt::main() }\n"
            "#[cfg(not(ipt_verif_rt))]\nfn main() {}\n")
    open(p, "w").write(head + t + tail)
    return report


if __name__ == "__main__":
    repo, dest = sys.argv[1], sys.argv[2]
    copy_tree(repo, dest)
    try:
        print(json.dumps(inject(dest), indent=1))
    except LostAnchor as e:
        print("LOST ANCHOR:", e)
        sys.exit(2)
