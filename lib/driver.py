#!/usr/bin/env python3
"""check driver: decides one property by discharging its contract obligations against
/repo's current working tree. See DESIGN.md section 1.

  check <ID> [--tier quick|thorough] [--replay <file>] [--keep] [--only <substr>]

exit 0  every obligation discharged (bounded stand-ins clean)
exit 1  + "VIOLATION property=<ID> replay=<path>[ no-failing-input-found]"  an obligation
        that is admitted (passes on the unchanged tree) was refuted
exit 2  undecided (lost anchor, build failure, timeout, OOM, unsupported construct,
        vacuous harness). Never a VIOLATION.
"""
import argparse, fcntl, hashlib, json, os, re, shutil, signal, subprocess, sys, time
from concurrent.futures import ThreadPoolExecutor

HERE = os.path.dirname(os.path.abspath(__file__))
VERIF = os.path.dirname(HERE)
sys.path.insert(0, HERE)
import inject  # noqa: E402
import props   # noqa: E402

REPO = os.environ.get("VERIF_REPO", "/repo")
WORK = os.environ.get("VERIF_WORK", "/var/tmp/ipt-verif")
ENV = dict(os.environ, CARGO_NET_OFFLINE="true", CARGO_TERM_COLOR="never")
MEM_BUDGET_GB = float(os.environ.get("VERIF_MEM_GB", "44"))
KANI_FLAGS = ["-Z", "function-contracts", "-Z", "stubbing", "-Z", "loop-contracts",
              "-Z", "unstable-options"]


def log(*a):
    print("[check]", *a, file=sys.stderr, flush=True)


def sh(cmd, cwd=None, env=None, timeout=None, out=None):
    t0 = time.time()
    try:
        p = subprocess.run(cmd, cwd=cwd, env=env or ENV, timeout=timeout,
                           stdout=subprocess.PIPE, stderr=subprocess.STDOUT, text=True,
                           errors="replace")
        rc, o = p.returncode, p.stdout
    except subprocess.TimeoutExpired as e:
        rc, o = 124, (e.stdout or "") if isinstance(e.stdout, str) else (e.stdout or b"").decode(errors="replace")
        subprocess.run(["pkill", "-f", "cbmc .*%s" % re.escape(cwd or "")], stderr=subprocess.DEVNULL)
    if out:
        open(out, "w").write(o)
    return rc, o, time.time() - t0


# --------------------------------------------------------------------------- scratch
class Scratch:
    def __init__(self, pid, keep=False):
        self.root = os.path.join(WORK, "run-%s" % pid)
        self.repo = os.path.join(self.root, "repo")
        self.keep = keep
        os.makedirs(self.root, exist_ok=True)
        self.lock = open(os.path.join(self.root, ".lock"), "w")
        fcntl.flock(self.lock, fcntl.LOCK_EX)

    def prepare(self, kani_needed=None):
        inject.copy_tree(REPO, self.repo)
        rep = inject.inject(self.repo, kani_needed=kani_needed)
        for g in props.PREGEN:
            g(self.repo)
        return rep

    def cleanup(self):
        if not self.keep:
            shutil.rmtree(self.repo, ignore_errors=True)
            # leaf-crate build output of this scratch copy
            shutil.rmtree(os.path.join(self.root, "target"), ignore_errors=True)
        fcntl.flock(self.lock, fcntl.LOCK_UN)


def kani_target():
    return os.path.join(WORK, "target-kani")


def rt_target():
    return os.path.join(WORK, "target-rt")


# --------------------------------------------------------------------------- Kani
UNDECIDED_PAT = re.compile(r"not currently supported by Kani|unsupported|foreign function|"
                           r"unwinding assertion|recursion unwinding|is not supported", re.I)


def classify_kani(res, err, ob):
    """-> (status, detail)   status in discharged|refuted|undecided"""
    checks = res.get("checks", [])
    status = res.get("status")
    fails = [c for c in checks if c.get("status") == "Failure"]
    if ob.get("ignore_desc"):
        # clauses that belong to another property sharing this harness
        fails = [c for c in fails if not re.search(ob["ignore_desc"], c.get("description") or "")]
        if status != "Success" and not fails and checks and not (err and err.get("exit_status") in ("timeout", "out_of_memory")):
            status = "Success"
    undet = [c for c in checks if c.get("status") in ("Undetermined", "SolverError")]
    covers = [c for c in checks if "VACUITY-GUARD reachable" in (c.get("description") or "")]
    if err and err.get("exit_status") in ("timeout", "out_of_memory"):
        return "undecided", "solver %s" % err.get("exit_status")
    if status == "Success":
        if covers and not all(c.get("status") == "Satisfied" for c in covers):
            return "undecided", "vacuous: reachability cover not satisfied"
        if not covers:
            return "undecided", "vacuous: harness has no reachability cover"
        return "discharged", ""
    if not checks:
        return "undecided", "no result from CBMC (%s)" % (err or {}).get("exit_status", "unknown")
    real = []
    soft = []
    for c in fails:
        d = c.get("description") or ""
        if UNDECIDED_PAT.search(d) and not (ob.get("unwind_is_obligation") and "unwinding" in d):
            soft.append(d)
        else:
            real.append(c)
    if real:
        return "refuted", "; ".join(sorted(set((c.get("description") or "?") for c in real)))[:600]
    if soft:
        return "undecided", "tool limit: " + "; ".join(sorted(set(soft)))[:300]
    if undet:
        return "undecided", "undetermined checks"
    return "undecided", "failed without failing check"


def run_kani(scr, obs, jobs, logdir):
    """Run a list of Kani obligations in ONE cargo-kani invocation per timeout class."""
    results = {}
    # ONE cargo-kani invocation for all obligations of the run (per-harness timeout = the largest cap): the
    # obligations run in parallel instead of cap class after cap class
    groups = {max(ob["cap"] for ob in obs): list(obs)} if obs else {}
    # one Kani batch at a time machine-wide (CBMC needs 1-8 GB per obligation; 62 GB, no swap)
    os.makedirs(WORK, exist_ok=True)
    glock = open(os.path.join(WORK, ".kani-global.lock"), "w")
    fcntl.flock(glock, fcntl.LOCK_EX)
    try:
        return _run_kani_locked(scr, groups, jobs, logdir, results)
    finally:
        fcntl.flock(glock, fcntl.LOCK_UN)


def _run_kani_locked(scr, groups, jobs, logdir, results):
    for cap, group in sorted(groups.items()):
        heavy = [ob for ob in group if ob.get("mem_gb", 2) >= 6]
        light = [ob for ob in group if ob.get("mem_gb", 2) < 6]
        plan = []
        light_jobs = min(len(light), 8) if heavy else min(len(light), jobs)
        light_mem = sum(sorted((ob.get("mem_gb", 2) for ob in light), reverse=True)[:light_jobs]) if light else 0
        if light:
            if not heavy:
                light_jobs = max(1, min(jobs, int(MEM_BUDGET_GB // max(ob.get("mem_gb", 2) for ob in light))))
            plan.append(("light", light, light_jobs))
        if heavy:
            hm = max(ob.get("mem_gb", 2) for ob in heavy)
            plan.append(("heavy", heavy, max(1, min(jobs, int((MEM_BUDGET_GB - light_mem) // hm)))))
        with ThreadPoolExecutor(max_workers=2) as ex:
            futs = [ex.submit(_kani_invoke, scr, sub, cap, j, logdir, tag) for (tag, sub, j) in plan]
            for f in futs:
                results.update(f.result())
    return results


def _kani_invoke(scr, group, cap, jobs_g, logdir, tag):
    results = {}
    if True:
        outjson = os.path.join(logdir, "kani-%s.json" % tag)
        if os.path.exists(outjson):
            os.unlink(outjson)
        cmd = ["cargo", "kani"] + KANI_FLAGS + ["--target-dir", kani_target(),
               "--harness-timeout", "%ds" % cap, "-j", str(min(jobs_g, len(group))),
               "--output-format", "terse", "--export-json", outjson, "--exact"]
        for ob in group:
            cmd += ["--harness", ob["h"]]
        log("kani[%s]: %d obligation(s), %d in parallel, cap %ds" % (tag, len(group), min(jobs_g, len(group)), cap))
        rc, out, secs = sh(cmd, cwd=scr.repo, timeout=cap * (1 + len(group) // max(1, jobs_g)) + 600,
                           out=os.path.join(logdir, "kani-%s.log" % tag))
        data = None
        if os.path.exists(outjson):
            try:
                data = json.load(open(outjson))
            except Exception:
                data = None
        if data is None:
            why = "cargo kani produced no result file (rc=%d): %s" % (rc, tail_err(out))
            for ob in group:
                results[ob["h"]] = dict(status="undecided", detail=why, secs=0.0, solver="-")
            return results
        by = {r["harness_id"]: r for r in data["verification_results"]["results"]}
        errs = {e["harness_id"]: e for e in data.get("error_details", [])}
        stats = {c["harness_id"]: c for c in data.get("cbmc", [])}
        for ob in group:
            r = by.get(ob["h"])
            if r is None:
                results[ob["h"]] = dict(status="undecided", detail="harness not found by Kani (lost anchor?)",
                                        secs=0.0, solver="-")
                continue
            st, detail = classify_kani(r, errs.get(ob["h"]), ob)
            s = stats.get(ob["h"], {})
            results[ob["h"]] = dict(status=st, detail=detail, secs=r.get("duration_ms", 0) / 1000.0,
                                    solver=(s.get("configuration") or {}).get("solver", "cadical"),
                                    n_checks=len(r.get("checks", [])),
                                    solver_s=(s.get("cbmc_stats") or {}).get("runtime_decision_procedure_s"))
    return results


def tail_err(out, n=12):
    lines = [l for l in out.split("\n") if l.strip() and not l.startswith("warning")]
    errs = [l for l in lines if "error" in l.lower()]
    return " | ".join((errs or lines)[-n:])[:1500]


PLAYBACK_RE = re.compile(r"(/// Test generated for harness `([^`]+)`.*?\n#\[test\]\nfn (\w+)\(\) \{.*?\n\})", re.S)


MAX_CEX = 6


def kani_cex_print_all(scr, obs, logdir):
    """step 1: ONE cargo-kani invocation asks for concrete values of all refuted harnesses (plain twin where the
    obligation is a contract harness). returns [(ob, info, tests)]"""
    hs = {}
    for ob in obs:
        hs[ob.get("cex") or ob["h"]] = ob
    cap = max(ob["cap"] for ob in obs)
    cmd = ["cargo", "kani"] + KANI_FLAGS + ["-Z", "concrete-playback", "--concrete-playback=print",
           "--target-dir", kani_target(), "--harness-timeout", "%ds" % cap, "-j", str(min(len(hs), 6)),
           "--output-format", "terse", "--exact"]
    for h in hs:
        cmd += ["--harness", h]
    rc, out, secs = sh(cmd, cwd=scr.repo, timeout=cap + 900, out=os.path.join(logdir, "cex.log"))
    out = re.sub(r"(?m)^Thread \d+: ?", "", out)
    per = {h: [] for h in hs}
    for m in PLAYBACK_RE.finditer(out):
        block, hname, tname = m.group(1), m.group(2), m.group(3)
        if hname in per:
            per[hname].append((tname, block))
    jobs = []
    for h, ob in hs.items():
        tests = per[h]
        # Kani prints identical value vectors once, under the first check they witness (possibly a cover),
        # so cover-labelled tests are kept as candidates; assertion-labelled ones are tried first
        tests.sort(key=lambda tb: 1 if "Check for `cover`" in tb[1] else 0)
        info = {"obligation": ob["h"], "counterexample_harness": h, "tests": [], "confirmed": False,
                "verifier_output": "\n".join(b for _, b in tests[:4])[:6000]}
        if not tests:
            info["note"] = "verifier printed no concrete values"
            info["verifier_output"] = "\n".join(out.split("\n")[-60:])
        elif ob.get("no_native_replay"):
            info["tests"] = [dict(name=t, code=b) for t, b in tests[:3]]
            info["note"] = ("harness draws values inside stubs; Kani's concrete values are reported but cannot be "
                            "re-executed without the stubs")
            tests = []
        jobs.append((ob, info, tests))
    return jobs


def kani_cex_playback(scr, jobs, logdir):
    """step 2: append all generated tests to their harness files, then execute them natively
    (cargo kani playback: the real code, real libm, no stubs). jobs: [(ob, info, tests)]"""
    seen = set()
    for ob, info, tests in jobs:
        srcfile = os.path.join(scr.repo, "src", ob["file"])
        code = ""
        for t, b in tests:
            if t in seen:
                continue
            seen.add(t)
            code += "\n#[cfg(test)]\n" + b.replace("#[test]\nfn ", "#[test]\npub fn ", 1) + "\n"
        if code:
            open(srcfile, "a").write(code)
    for ob, info, tests in jobs:
        order = []
        for t, b in tests:
            if t not in order:
                order.append(t)
        for t in order[:4]:
            cmd = ["cargo", "kani", "playback", "-Z", "concrete-playback", "--", t]
            rc, pout, secs = sh(cmd, cwd=scr.repo, timeout=900, out=os.path.join(logdir, "playback-%s.log" % t),
                                env=dict(ENV, CARGO_TARGET_DIR=os.path.join(WORK, "target-playback")))
            failed = bool(re.search(r"test result: FAILED|panicked at", pout))
            ok = bool(re.search(r"test result: ok. 1 passed", pout))
            vals = decode_vals([b for (n, b) in tests if n == t][0])
            info["tests"].append(dict(name=t, concrete_values=vals, code=[b for (n, b) in tests if n == t][0],
                                      native_replay="FAILS on the real code (counterexample confirmed)" if failed
                                      else ("passes on the real code (these values do not violate the clause natively)"
                                            if ok else "could not be executed"),
                                      native_output="\n".join([l for l in pout.split("\n") if "panicked" in l or
                                                                re.match(r"^C\d\d ", l) or "test result: FAILED" in l or
                                                                "1 passed" in l][-8:])))
            if failed:
                info["confirmed"] = True
                break


def decode_vals(block):
    vals = []
    for m in re.finditer(r"// (.*)\n\s*vec!\[([0-9, ]*)\]", block):
        comment, bs = m.group(1), [int(x) for x in m.group(2).split(",") if x.strip()]
        e = {"bytes": bs, "kani_comment": comment}
        if len(bs) == 8:
            import struct
            e["as_f64"] = repr(struct.unpack("<d", bytes(bs))[0])
            e["as_i64"] = struct.unpack("<q", bytes(bs))[0]
        elif len(bs) == 4:
            import struct
            e["as_i32"] = struct.unpack("<i", bytes(bs))[0]
        vals.append(e)
    return vals


# --------------------------------------------------------------------------- Verus
def run_verus(scr, vob, logdir):
    """vob: {name, gen: callable(repo_dir)->(text, dropped:list), expect_fail: [fn names]}"""
    import verus_extract
    t0 = time.time()
    try:
        text, meta = vob["gen"](scr.repo)
    except verus_extract.LostAnchor as e:
        return dict(status="undecided", detail="lost anchor: %s" % e, secs=0, items=[])
    path = os.path.join(logdir, vob["name"] + ".rs")
    open(path, "w").write(text)
    cmd = ["verus", path, "--output-json", "--time", "--multiple-errors", "50"]
    if vob.get("rlimit"):
        cmd += ["--rlimit", str(vob["rlimit"])]
    rc, out, secs = sh(cmd, cwd=logdir, timeout=vob.get("cap", 300), out=os.path.join(logdir, vob["name"] + ".verus.log"))
    return verus_extract.classify(vob, text, meta, rc, out, secs)


# --------------------------------------------------------------------------- rtcheck
def build_rt(scr, logdir):
    env = dict(ENV, RUSTFLAGS="--cfg ipt_verif_rt -A warnings", CARGO_TARGET_DIR=rt_target())
    rc, out, secs = sh(["cargo", "build", "--release", "--offline", "--bin", "rtcheck"], cwd=scr.repo, env=env,
                       timeout=1200, out=os.path.join(logdir, "rt-build.log"))
    if rc != 0:
        return None, tail_err(out)
    src = os.path.join(rt_target(), "release", "rtcheck")
    dst = os.path.join(scr.root, "rtcheck")
    shutil.copy2(src, dst)
    return dst, ""


def run_rt(binpath, rob, seed, tier, logdir):
    args = [binpath, rob["name"], "--seed", str(seed), "--tier", tier] + rob.get("args", [])
    rc, out, secs = sh(args, cwd=logdir, timeout=rob.get("cap", 900),
                       out=os.path.join(logdir, "rt-%s.log" % rob["name"]))
    res = None
    for line in out.split("\n"):
        if line.startswith("RTJSON "):
            try:
                res = json.loads(line[7:])
            except Exception:
                pass
    if res is None:
        return dict(status="undecided", detail="rtcheck %s gave no result (rc=%s): %s" % (rob["name"], rc, out[-400:]),
                    secs=secs, evaluations=0, failures=[])
    res["secs"] = secs
    known_keys = set(k["key"] for k in load_known())
    res["known_failures"] = [f for f in res.get("failures", []) if isinstance(f, dict) and f.get("key") in known_keys]
    res["failures"] = [f for f in res.get("failures", []) if not (isinstance(f, dict) and f.get("key") in known_keys)]
    res["status"] = "refuted" if res.get("failures") else "discharged"
    return res


# --------------------------------------------------------------------------- known findings
def load_known():
    p = os.path.join(VERIF, "known_findings.txt")
    known = []
    if os.path.exists(p):
        for line in open(p):
            line = line.strip()
            if line.startswith("known:"):
                m = re.match(r"known:\s*property=(\S+)\s+key=(\S+)\s+(.*)", line)
                if m:
                    known.append(dict(prop=m.group(1), key=m.group(2), text=m.group(3)))
    return known


# --------------------------------------------------------------------------- main
def warm():
    """setup_cmd: build third-party dependencies once for the Kani and native target dirs."""
    scr = Scratch("warm")
    logdir = os.path.join(scr.root, "logs")
    os.makedirs(logdir, exist_ok=True)
    try:
        scr.prepare()
        rc, out, secs = sh(["cargo", "kani"] + KANI_FLAGS + ["--target-dir", kani_target(), "--only-codegen"],
                           cwd=scr.repo, timeout=1800, out=os.path.join(logdir, "warm-kani.log"))
        log("warm: kani codegen rc=%d %.0fs" % (rc, secs))
        if rc != 0:
            log(tail_err(out))
        b, err = build_rt(scr, logdir)
        log("warm: rtcheck build %s" % ("ok" if b else "FAILED " + err))
        rc2, out2, _ = sh(["verus", "--version"], timeout=60)
        log("warm: verus %s" % out2.strip().split("\n")[0])
        return 0 if (rc == 0 and b) else 1
    finally:
        scr.cleanup()


def main():
    if len(sys.argv) > 1 and sys.argv[1] == "--warm":
        return warm()
    ap = argparse.ArgumentParser()
    ap.add_argument("prop")
    ap.add_argument("--tier", default=os.environ.get("VERIF_TIER", "quick"))
    ap.add_argument("--replay")
    ap.add_argument("--keep", action="store_true")
    ap.add_argument("--only")
    ap.add_argument("--jobs", type=int, default=int(os.environ.get("VERIF_JOBS", "16")))
    a = ap.parse_args()
    seed = int(os.environ.get("VERIF_SEED", "0") or 0)
    pid = a.prop
    if pid not in props.PROPS:
        log("unknown property", pid)
        return 2
    P = props.PROPS[pid]
    tier = a.tier if a.tier in ("quick", "thorough") else "quick"
    t0 = time.time()
    scr = Scratch(pid, keep=a.keep)
    logdir = os.path.join(scr.root, "logs")
    shutil.rmtree(logdir, ignore_errors=True)
    os.makedirs(logdir, exist_ok=True)
    rc = 2
    try:
        rc = run_property(pid, P, tier, seed, scr, logdir, a, t0)
    except inject.LostAnchor as e:
        log("UNDECIDED: lost anchor:", e)
        write_evidence(pid, P, tier, seed, [], [], time.time() - t0, note="lost anchor: %s" % e)
        rc = 2
    finally:
        scr.cleanup()
    return rc


def selected(obs, tier, only):
    out = []
    for ob in obs:
        if tier == "quick" and ob.get("tier", "quick") != "quick":
            continue
        if only and only not in (ob.get("h") or ob.get("name")):
            continue
        out.append(ob)
    return out


def replay(pid, P, path, scr, logdir):
    """bin/check <ID> --replay <file>: re-execute a recorded violation against /repo's current tree.
    exit 1 = it still fails (VIOLATION line), exit 0 = it no longer fails, exit 2 = cannot be replayed."""
    info = json.load(open(path))
    scr.prepare()
    ob_name = info.get("obligation", "")
    if ob_name.startswith("bounded:"):
        name = ob_name.split(":", 1)[1]
        robs = [r for r in P.get("rt", []) if r["name"] == name]
        binpath, err = build_rt(scr, logdir)
        if not robs or binpath is None:
            log("cannot replay:", err or "unknown bounded check")
            return 2
        r = run_rt(binpath, robs[0], int(info.get("seed", 0) or 0), info.get("tier", "quick"), logdir)
        log("bounded replay %s: %s, %d failing input(s)" % (name, r["status"], len(r.get("failures", []))))
        if r["status"] == "refuted":
            print("VIOLATION property=%s replay=%s" % (pid, path))
            return 1
        return 0 if r["status"] == "discharged" else 2
    if ob_name.startswith("verus:"):
        vname = ob_name.split(":")[1]
        vobs = [v for v in P.get("verus", []) if v["name"] == vname]
        if not vobs:
            return 2
        r = run_verus(scr, vobs[0], logdir)
        bad = [it for it in r["items"] if it["status"] == "refuted"]
        for it in bad:
            log("verus replay: %s refuted: %s" % (it["name"], it.get("detail", "")[:200]))
        if bad:
            print("VIOLATION property=%s replay=%s no-failing-input-found" % (pid, path))
            return 1
        return 0 if r["items"] else 2
    obs = [o for o in P.get("kani", []) if o["h"] == ob_name]
    tests = [(x["name"], x["code"]) for x in info.get("tests", []) if x.get("code")]
    if not obs or not tests:
        log("nothing executable recorded in", path)
        return 2
    inf = {"tests": [], "confirmed": False}
    kani_cex_playback(scr, [(obs[0], inf, tests)], logdir)
    for x in inf["tests"]:
        log("native replay of %s: %s" % (x["name"], x["native_replay"]))
    if inf["confirmed"]:
        print("VIOLATION property=%s replay=%s" % (pid, path))
        return 1
    return 0


def run_property(pid, P, tier, seed, scr, logdir, a, t0):
    if a.replay:
        return replay(pid, P, a.replay, scr, logdir)
    # only the harness modules this property's obligations live in are compiled
    needed = set()
    for ob in P.get("kani", []):
        stem = os.path.basename(ob["file"])[:-3]
        needed.add(stem[len("child_"):] if stem.startswith("child_") else stem)
    rep = scr.prepare(kani_needed=needed)
    log("scratch copy of %s at %s; injected %d child modules" % (REPO, scr.repo, len(rep["appended_child_modules"])))
    kobs = selected(P.get("kani", []), tier, a.only)
    vobs = selected(P.get("verus", []), tier, a.only)
    robs = selected(P.get("rt", []), tier, a.only)
    records = []     # proof obligations
    bounded = []     # bounded stand-ins
    violations = []  # (obligation, replay info)
    spurious_obs = []  # refuted by the verifier, but none of its concrete vectors fails natively

    with ThreadPoolExecutor(max_workers=3) as ex:
        fk = ex.submit(run_kani, scr, kobs, a.jobs, logdir) if kobs else None
        fv = [ex.submit(run_verus, scr, v, logdir) for v in vobs]
        kres = fk.result() if fk else {}
        vres = [f.result() for f in fv]

    for ob in kobs:
        r = kres[ob["h"]]
        records.append(dict(obligation=ob["h"], clause=ob["clause"], fn=ob.get("fn", ""), backend="Kani 0.68/CBMC 6.11",
                            solver=r.get("solver"), status=r["status"], detail=r["detail"], secs=round(r["secs"], 2),
                            cbmc_checks=r.get("n_checks", 0)))
        log("  %-11s %-60s %7.1fs %s" % (r["status"], ob["h"].split("::")[-1], r["secs"], r["detail"][:100]))
    extraction = []
    for v, r in zip(vobs, vres):
        extraction += ["%s: %s" % (v["name"], e) for e in r.get("edits", [])]
        extraction += ["%s: outlined statement `%s`" % (v["name"], s) for s in r.get("outlined", [])]
    P = dict(P, _extraction=extraction)
    for v, r in zip(vobs, vres):
        for it in r["items"]:
            records.append(dict(obligation="verus:%s:%s" % (v["name"], it["name"]), clause=it.get("clause", ""),
                                fn=it["name"], backend="Verus 0.2026.09.13/Z3", solver="z3", status=it["status"],
                                detail=it.get("detail", ""), secs=it.get("secs", 0)))
            log("  %-11s verus:%s:%s %s" % (it["status"], v["name"], it["name"], it.get("detail", "")[:100]))
        if r["status"] == "undecided" and not r["items"]:
            records.append(dict(obligation="verus:%s" % v["name"], clause="", fn="", backend="Verus", solver="z3",
                                status="undecided", detail=r["detail"], secs=r.get("secs", 0)))
            log("  undecided   verus:%s %s" % (v["name"], r["detail"][:300]))

    # counterexamples + native replay for refuted Kani obligations
    os.makedirs(os.path.join(VERIF, "replays"), exist_ok=True)
    refuted = [ob for ob in kobs if kres[ob["h"]]["status"] == "refuted"]
    jobs = []
    if refuted:
        jobs = kani_cex_print_all(scr, refuted[:MAX_CEX], logdir)
        kani_cex_playback(scr, jobs, logdir)
        for ob in refuted[MAX_CEX:]:
            jobs.append((ob, {"obligation": ob["h"], "confirmed": False, "tests": [],
                              "note": "counterexample extraction is limited to %d obligations per run; see the other replay "
                                      "files of this run" % MAX_CEX}, []))
    for ob, info, tests in jobs:
        r = kres[ob["h"]]
        info.update(property=pid, clause=ob["clause"], failed_checks=r["detail"], tier=tier,
                    function_under_contract=ob.get("fn", ""))
        path = os.path.join(VERIF, "replays", "%s-%s.json" % (pid, ob["h"].split("::")[-1]))
        # every concrete vector the verifier produced was executed natively and none violates the clause on the
        # real code: the counterexample lives in the verifier's model only (e.g. CBMC's inexact f64 % f64,
        # DESIGN.md 1.3). That is not a violation of the property; it is reported as undecided unless another
        # obligation or the bounded stand-in of this run produces a failing input.
        executed = [x for x in info.get("tests", []) if "native_replay" in x]
        spurious = (not info["confirmed"]) and executed and all(x["native_replay"].startswith("passes") for x in executed)
        info["spurious_in_native_replay"] = bool(spurious)
        json.dump(info, open(path, "w"), indent=1)
        if spurious:
            spurious_obs.append((ob["h"].split("::")[-1], path))
        elif (not tests and not executed and "limited to" in info.get("note", "") and spurious_obs
              and not any(v[2] for v in violations)):
            # beyond the extraction limit, and everything examined so far lives in the verifier's model only
            spurious_obs.append((ob["h"].split("::")[-1], path))
        else:
            violations.append((ob["h"].split("::")[-1], path, info["confirmed"]))
    for v, r in zip(vobs, vres):
        for it in r["items"]:
            if it["status"] == "refuted":
                path = os.path.join(VERIF, "replays", "%s-verus-%s-%s.json" % (pid, v["name"], it["name"]))
                json.dump(dict(property=pid, obligation="verus:%s:%s" % (v["name"], it["name"]),
                               clause=it.get("clause", ""), verifier_output=it.get("detail", ""),
                               note="Verus gives no counterexample"), open(path, "w"), indent=1)
                violations.append(("verus-%s-%s" % (v["name"], it["name"]), path, False))

    # bounded stand-ins
    if robs:
        binpath, err = build_rt(scr, logdir)
        if binpath is None:
            for rob in robs:
                bounded.append(dict(name=rob["name"], status="undecided", detail="rtcheck build failed: " + err,
                                    evaluations=0, failures=[]))
            log("  undecided   rtcheck build failed:", err[:300])
        else:
            with ThreadPoolExecutor(max_workers=min(8, len(robs))) as ex:
                futs = [ex.submit(run_rt, binpath, rob, seed, tier, logdir) for rob in robs]
                for rob, f in zip(robs, futs):
                    r = f.result()
                    r["name"] = rob["name"]
                    r["what"] = rob.get("what", "")
                    bounded.append(r)
                    log("  %-11s bounded:%s evaluations=%s %s" % (r["status"], rob["name"], r.get("evaluations"),
                                                                   (r.get("detail") or "")[:100]))
                    for kk in sorted(set(f["key"] for f in r.get("known_failures", []))):
                        txt = [x for x in load_known() if x["key"] == kk and x["prop"] == pid]
                        if txt:
                            print("KNOWN-FINDING: property=%s %s" % (pid, txt[0]["text"]))
                    if r["status"] == "refuted":
                        path = os.path.join(VERIF, "replays", "%s-bounded-%s.json" % (pid, rob["name"]))
                        json.dump(dict(property=pid, obligation="bounded:" + rob["name"], seed=seed, tier=tier, what=rob.get("what", ""),
                                       failing_inputs=r["failures"][:20],
                                       replay="rtcheck %s --replay <input>" % rob["name"]), open(path, "w"), indent=1)
                        violations.append(("bounded-" + rob["name"], path, True, r["failures"]))

    wall = time.time() - t0
    known = [k for k in load_known() if k["prop"] == pid]
    # known findings suppress only the exact obligation key they name
    real_viol = []
    for v in violations:
        k = [x for x in known if x["key"] == v[0]]
        if k:
            print("KNOWN-FINDING: property=%s %s" % (pid, k[0]["text"]))
        else:
            real_viol.append(v)
    n_und = sum(1 for r in records if r["status"] == "undecided") + sum(1 for b in bounded if b["status"] == "undecided")
    write_evidence(pid, P, tier, seed, records, bounded, wall, violations=len(real_viol),
                   deferred=[ob["h"] for ob in P.get("kani", []) if ob not in kobs])
    if spurious_obs and not real_viol:
        for nm, pth in spurious_obs:
            log("UNDECIDED: %s refuted by the verifier but its counterexample does not replay on the real code (%s)" % (nm, pth))
        write_evidence(pid, P, tier, seed, records, bounded, wall, violations=0,
                       deferred=[ob["h"] for ob in P.get("kani", []) if ob not in kobs],
                       note="obligations refuted in the verifier's model only: " + ", ".join(n for n, _ in spurious_obs))
        return 2
    if real_viol:
        for nm, pth in spurious_obs:
            # other evidence of a violation exists in this run: report these too, marked as not replayed
            print("VIOLATION property=%s replay=%s no-failing-input-found" % (pid, pth))
        for v in real_viol:
            print("VIOLATION property=%s replay=%s%s" % (pid, v[1], "" if v[2] else " no-failing-input-found"))
        return 1
    if not records and not bounded:
        log("UNDECIDED: no obligation was generated (vacuous run)")
        return 2
    if n_und:
        log("UNDECIDED: %d obligation(s) could not be decided; no violation reported" % n_und)
        return 2
    log("%s %s: %d obligations discharged, %d bounded stand-ins clean, %.0fs" %
        (pid, tier, len(records), len(bounded), wall))
    return 0


def scan_trusted(P, records):
    """mechanical scan of the harness / spec sources used by this property"""
    found = set()
    files = set(P.get("sources", []))
    for f in files:
        p = os.path.join(VERIF, f)
        if not os.path.exists(p):
            continue
        t = open(p).read()
        for m in re.finditer(r"kani::stub\(([^,]+),", t):
            found.add("kani::stub of %s (%s)" % (re.sub(r"\s+", "", m.group(1)), f))
        for kw in ("external_body", "assume_specification", "admit(", "assume("):
            n = t.count(kw)
            if n:
                found.add("%d x %s in %s" % (n, kw, f))
        if "kani::assume" in t:
            found.add("%d x kani::assume (harness preconditions) in %s" % (t.count("kani::assume"), f))
    return sorted(found)


def write_evidence(pid, P, tier, seed, records, bounded, wall, violations=0, note=None, deferred=None):
    os.makedirs(os.path.join(VERIF, "evidence"), exist_ok=True)
    n = len(records)
    d = sum(1 for r in records if r["status"] == "discharged")
    level = P["level"]
    cov = {
        "obligations": n,
        "discharged": d,
        "checker_cmd": "cargo kani -Z function-contracts -Z stubbing -Z loop-contracts --exact --harness <obligation> "
                       "(on the injected scratch copy of /repo's working tree); verus <extracted>.rs",
        "trusted_base": scan_trusted(P, records) + P.get("trusted", []),
        "functions_under_contract": sorted(set(r["fn"] for r in records if r.get("fn"))),
        "obligation_list": records,
        "solver_seconds_total": round(sum(r.get("secs", 0) or 0 for r in records), 1),
        "bounded_stand_ins": [dict(name=b.get("name"), what=b.get("what"), status=b.get("status"),
                                   evaluations=b.get("evaluations"), bound=b.get("bound"),
                                   distinct_nontrivial=b.get("distinct_nontrivial"),
                                   samples=b.get("samples", [])[:5], secs=round(b.get("secs", 0), 1),
                                   detail=b.get("detail")) for b in bounded],
        "deferred_to_thorough": deferred or [],
        "not_admitted": P.get("not_admitted", []),
        "verus_extraction_edits": P.get("_extraction", []),
        "samples": [dict(obligation=r["obligation"], clause=r["clause"], status=r["status"]) for r in records[:6]],
        "explanation": P.get("explanation", ""),
        "evaluations": sum(int(b.get("evaluations") or 0) for b in bounded) + n,
        "distinct_nontrivial": sum(int(b.get("distinct_nontrivial") or 0) for b in bounded) + d,
        "rule": "proof obligations are counted one per Kani harness / Verus function; bounded stand-ins count the "
                "distinct inputs on which the contract closure was evaluated on the real code",
    }
    if note:
        cov["note"] = note
    ev = {"property_id": pid, "tier": tier, "seed": seed, "level": level, "coverage": cov,
          "assumptions": P.get("assumptions", []), "wall_s": round(wall, 1), "violations": violations}
    json.dump(ev, open(os.path.join(VERIF, "evidence", "%s.json" % pid), "w"), indent=1)


if __name__ == "__main__":
    sys.exit(main())
