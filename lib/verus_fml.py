"""Formula-shape contracts: Verus file generated on every run from src/prayer_times/hours.rs and
src/geo/qibla.rs. IEEE operations and libm functions are UNINTERPRETED: Verus proves, by congruence
only, that each function computes exactly the expression tree written in the contract (taken from the
property statements / Meeus), on exactly the named inputs. It says nothing about numerical accuracy."""
import os, re
import verus_extract as X

PRELUDE = r'''
use vstd::prelude::*;
use vstd::std_specs::ops::*;
verus! {

// ---------- libm / IEEE operations: uninterpreted (congruence reasoning only)
pub uninterp spec fn fsin(x: f64) -> f64;
pub uninterp spec fn fcos(x: f64) -> f64;
pub uninterp spec fn ftan(x: f64) -> f64;
pub uninterp spec fn fasin(x: f64) -> f64;
pub uninterp spec fn facos(x: f64) -> f64;
pub uninterp spec fn fatan(x: f64) -> f64;
pub uninterp spec fn fatan2(y: f64, x: f64) -> f64;
pub uninterp spec fn frad(x: f64) -> f64;
pub uninterp spec fn fdeg(x: f64) -> f64;
pub uninterp spec fn fabs(x: f64) -> f64;
pub uninterp spec fn fnegs(x: f64) -> f64;
pub uninterp spec fn within1(x: f64) -> bool;
pub uninterp spec fn cap1(x: f64) -> f64;
pub uninterp spec fn cap180(x: f64) -> f64;
pub uninterp spec fn cap360(x: f64) -> f64;
pub uninterp spec fn capb180(x: f64) -> f64;

pub assume_specification[ f64::sin ](x: f64) -> (r: f64) ensures r == fsin(x);
pub assume_specification[ f64::cos ](x: f64) -> (r: f64) ensures r == fcos(x);
pub assume_specification[ f64::tan ](x: f64) -> (r: f64) ensures r == ftan(x);
pub assume_specification[ f64::asin ](x: f64) -> (r: f64) ensures r == fasin(x);
pub assume_specification[ f64::acos ](x: f64) -> (r: f64) ensures r == facos(x);
pub assume_specification[ f64::atan ](x: f64) -> (r: f64) ensures r == fatan(x);
pub assume_specification[ f64::atan2 ](y: f64, x: f64) -> (r: f64) ensures r == fatan2(y, x);
pub assume_specification[ f64::to_radians ](x: f64) -> (r: f64) ensures r == frad(x);
pub assume_specification[ f64::to_degrees ](x: f64) -> (r: f64) ensures r == fdeg(x);
pub assume_specification[ f64::abs ](x: f64) -> (r: f64) ensures r == fabs(x);
// further f64 methods a rewrite may introduce: uninterpreted, so that the changed text stays inside the subset and is compared with the stated tree
pub uninterp spec fn fclamp(x: f64, lo: f64, hi: f64) -> f64;
pub uninterp spec fn fmin(x: f64, y: f64) -> f64;
pub uninterp spec fn fmax(x: f64, y: f64) -> f64;
pub assume_specification[ f64::clamp ](x: f64, lo: f64, hi: f64) -> (r: f64) ensures r == fclamp(x, lo, hi);
pub assume_specification[ f64::min ](x: f64, y: f64) -> (r: f64) ensures r == fmin(x, y);
pub assume_specification[ f64::max ](x: f64, y: f64) -> (r: f64) ensures r == fmax(x, y);

pub mod fax {
    use super::*;
    #[verifier::external_body]
    pub broadcast proof fn ax_sub(a: f64, b: f64)
        ensures #[trigger] <f64 as SubSpec<f64>>::sub_req(a, b), <f64 as SubSpec<f64>>::obeys_sub_spec(), {}
    #[verifier::external_body]
    pub broadcast proof fn ax_mul(a: f64, b: f64)
        ensures #[trigger] <f64 as MulSpec<f64>>::mul_req(a, b), <f64 as MulSpec<f64>>::obeys_mul_spec(), {}
    #[verifier::external_body]
    pub broadcast proof fn ax_div(a: f64, b: f64)
        ensures #[trigger] <f64 as DivSpec<f64>>::div_req(a, b), <f64 as DivSpec<f64>>::obeys_div_spec(), {}
    #[verifier::external_body]
    pub broadcast proof fn ax_add(a: f64, b: f64)
        ensures #[trigger] <f64 as AddSpec<f64>>::add_req(a, b), <f64 as AddSpec<f64>>::obeys_add_spec(), {}
    /// IEEE-754 addition and multiplication are commutative (bit-identical results for non-NaN operands)
    #[verifier::external_body]
    pub broadcast proof fn ax_add_comm(a: f64, b: f64)
        ensures #[trigger] a.add_spec(b) == b.add_spec(a), {}
    #[verifier::external_body]
    pub broadcast proof fn ax_mul_comm(a: f64, b: f64)
        ensures #[trigger] a.mul_spec(b) == b.mul_spec(a), {}
}
broadcast use {fax::ax_sub, fax::ax_mul, fax::ax_div, fax::ax_add, fax::ax_add_comm, fax::ax_mul_comm};

/// unary minus on f64 (Verus does not support the operator; rewrite listed by the extractor)
#[verifier::external_body]
fn fneg(x: f64) -> (r: f64) ensures r == fnegs(x) { -x }

// ---------- stand-ins for the crate's own types: a value is the tuple of the f64 fields the code reads
#[derive(Clone, Copy)] pub struct Latitude { pub v: f64 }
#[derive(Clone, Copy)] pub struct Longitude { pub v: f64 }
#[derive(Clone, Copy)] pub struct Elevation { pub v: f64 }
#[derive(Clone, Copy)] pub struct Pressure { pub v: f64 }
#[derive(Clone, Copy)] pub struct Temperature { pub v: f64 }
#[derive(Clone, Copy)] pub struct Coordinates { pub latitude: Latitude, pub longitude: Longitude, pub elevation: Elevation }
#[derive(Clone, Copy)] pub struct Weather { pub pressure: Pressure, pub temperature: Temperature }
#[derive(Clone, Copy)] pub struct Astro { pub dra_: f64, pub dec_: f64, pub ra_: f64, pub sid_: f64 }
impl Astro {
    #[verifier::external_body] pub fn dra(&self) -> (r: f64) ensures r == self.dra_ { unimplemented!() }
    #[verifier::external_body] pub fn dec(&self) -> (r: f64) ensures r == self.dec_ { unimplemented!() }
    #[verifier::external_body] pub fn ra(&self) -> (r: f64) ensures r == self.ra_ { unimplemented!() }
    #[verifier::external_body] pub fn sid_time(&self) -> (r: f64) ensures r == self.sid_ { unimplemented!() }
}
pub struct TopAstroDay { pub prev: Astro, pub cur: Astro, pub next: Astro, pub coords_: Coordinates }
impl TopAstroDay {
    #[verifier::external_body] pub fn astro(&self) -> (r: &Astro) ensures *r == self.cur { unimplemented!() }
    #[verifier::external_body] pub fn prev_astro(&self) -> (r: &Astro) ensures *r == self.prev { unimplemented!() }
    #[verifier::external_body] pub fn next_astro(&self) -> (r: &Astro) ensures *r == self.next { unimplemented!() }
    #[verifier::external_body] pub fn coords(&self) -> (r: Coordinates) ensures r == self.coords_ { unimplemented!() }
}
#[derive(Clone, Copy, PartialEq, Eq)] pub enum Prayer { Imsaak, Fajr, Shurooq, Dhuhr, Asr, Maghrib, Isha }
#[derive(Clone, Copy, PartialEq, Eq)] pub enum AsrShadowRatio { Shafi, Hanafi }
pub struct PMap { pub fajr: f64, pub isha: f64, pub imsaak: f64 }
impl PMap {
    /// `map[&key]` of the source is spelled `map.idx(&key)` here (rewrite listed by the extractor)
    #[verifier::external_body]
    pub fn idx(&self, k: &Prayer) -> (r: f64)
        requires *k == Prayer::Fajr || *k == Prayer::Isha || *k == Prayer::Imsaak,
        ensures r == (match *k { Prayer::Fajr => self.fajr, Prayer::Isha => self.isha, _ => self.imsaak })
    { unimplemented!() }
}
pub struct Params { pub asr_shadow_ratio: AsrShadowRatio, pub angles: PMap, pub intervals: PMap, pub minutes: PMap }
/// `f64::from(x)` for the validated newtypes: reads the wrapped value (C18 proves it bit-identical)
pub trait ToF { spec fn val(&self) -> f64; }
impl ToF for Latitude { open spec fn val(&self) -> f64 { self.v } }
impl ToF for Longitude { open spec fn val(&self) -> f64 { self.v } }
impl ToF for Elevation { open spec fn val(&self) -> f64 { self.v } }
impl ToF for Pressure { open spec fn val(&self) -> f64 { self.v } }
impl ToF for Temperature { open spec fn val(&self) -> f64 { self.v } }
#[verifier::external_body]
fn f64_from<T: ToF>(x: T) -> (r: f64) ensures r == x.val() { unimplemented!() }
/// `params.asr_shadow_ratio as u8 as f64`: 1.0 for Shafi, 2.0 for Hanafi (discriminants: Kani obligation c04_shadow_ratio)
#[verifier::external_body]
fn madhab_f64(a: AsrShadowRatio) -> (r: f64) ensures r == (match a { AsrShadowRatio::Shafi => 1.0f64, AsrShadowRatio::Hanafi => 2.0f64 }) { unimplemented!() }
/// the domain guard (Kani obligation c06_within_abs_1: true exactly on [-1,1])
#[verifier::external_body]
fn within_abs_1(val: f64) -> (r: bool) ensures r == within1(val) { unimplemented!() }
/// angle normalisation (LimitAngle methods; ranges/congruence are Kani obligations c01_cap_*)
#[verifier::external_body] fn cap_angle_1(x: f64) -> (r: f64) ensures r == cap1(x) { unimplemented!() }
#[verifier::external_body] fn cap_angle_180(x: f64) -> (r: f64) ensures r == cap180(x) { unimplemented!() }
#[verifier::external_body] fn cap_angle_360(x: f64) -> (r: f64) ensures r == cap360(x) { unimplemented!() }
#[verifier::external_body] fn cap_angle_between_180(x: f64) -> (r: f64) ensures r == capb180(x) { unimplemented!() }

/// LimitAngle methods on f64 (angle.rs): ranges / congruence are Kani obligations c01_cap_*; here only their identity matters
pub trait LimitAngle: Sized {
    spec fn me(&self) -> f64;
    fn cap_angle_1(self) -> (r: f64) ensures r == cap1(self.me());
    fn cap_angle_180(self) -> (r: f64) ensures r == cap180(self.me());
    fn cap_angle_360(self) -> (r: f64) ensures r == cap360(self.me());
    fn cap_angle_between_180(self) -> (r: f64) ensures r == capb180(self.me());
}
impl LimitAngle for f64 {
    open spec fn me(&self) -> f64 { *self }
    #[verifier::external_body] fn cap_angle_1(self) -> (r: f64) { unimplemented!() }
    #[verifier::external_body] fn cap_angle_180(self) -> (r: f64) { unimplemented!() }
    #[verifier::external_body] fn cap_angle_360(self) -> (r: f64) { unimplemented!() }
    #[verifier::external_body] fn cap_angle_between_180(self) -> (r: f64) { unimplemented!() }
}

// ---------- specification formulas (from the property statements; Meeus, Astronomical Algorithms)
pub open spec fn s_add(a: f64, b: f64) -> f64 { a.add_spec(b) }
pub open spec fn s_sub(a: f64, b: f64) -> f64 { a.sub_spec(b) }
pub open spec fn s_mul(a: f64, b: f64) -> f64 { a.mul_spec(b) }
pub open spec fn s_div(a: f64, b: f64) -> f64 { a.div_spec(b) }
/// cos H = (sin h - sin(lat) sin(dec)) / (cos(lat) cos(dec))     [C02, C03, C04, C06]
pub open spec fn cos_h(sin_alt: f64, lat: f64, dec: f64) -> f64 {
    s_div(s_sub(sin_alt, s_mul(fsin(frad(lat)), fsin(frad(dec)))), s_mul(fcos(frad(lat)), fcos(frad(dec))))
}
/// Asr: altitude a with cot a = k + tan|lat - dec| (k = 1 Shafi, 2 Hanafi), then the same hour-angle formula     [C04]
pub open spec fn asr_ratio(k: AsrShadowRatio, lat: f64, dec: f64) -> f64 {
    let kk = match k { AsrShadowRatio::Shafi => 1.0f64, AsrShadowRatio::Hanafi => 2.0f64 };
    let a = fatan(s_div(1.0f64, s_add(kk, ftan(fabs(s_sub(frad(lat), frad(dec)))))));
    cos_h(fsin(a), lat, dec)
}
/// Meeus (16.4) refraction scaled by pressure/temperature, in degrees     [C02, C12: the only reader of the weather]
pub open spec fn refraction(p: f64, t: f64, alt: f64) -> f64 {
    let r = s_div(1.02f64, s_add(fdeg(ftan(frad(s_add(alt, s_div(10.3f64, s_add(alt, 5.11f64)))))), 0.0019279f64));
    let m = s_mul(s_div(p, 1010.0f64), s_div(283.0f64, s_add(273.0f64, t)));
    s_div(s_mul(m, r), 60.0f64)
}
/// local hour angle at day fraction n: theta0 + 360.985647 n + L - alpha(n), alpha by 3-point interpolation (Meeus 3.3, 15.x)   [C01]
pub open spec fn hour_angle(sid: f64, ra: f64, lon: f64, d: (f64, f64), n: f64) -> f64 {
    let sid_gw = cap360(s_add(sid, s_mul(360.985647f64, n)));
    let ra_i = s_add(ra, s_div(s_mul(n, s_add(d.0, s_mul(d.1, n))), 2.0f64));
    capb180(s_sub(s_add(sid_gw, lon), ra_i))
}
/// rise/set correction (Meeus p.103): altitude at the approximate time incl. refraction, delta m = (h - h0) / (360 cos d cos phi sin H)   [C02]
pub open spec fn shur_magh(dec: f64, dra: f64, lat: f64, w: Weather, dd: (f64, f64), m: f64, ha: f64) -> f64 {
    let dec_i = frad(s_add(dec, s_div(s_mul(m, s_add(dd.0, s_mul(dd.1, m))), 2.0f64)));
    let lat_r = frad(lat);
    let ha_r = s_sub(frad(ha), dra);
    let alt0 = fdeg(fasin(s_add(s_mul(fsin(lat_r), fsin(dec_i)), s_mul(s_mul(fcos(lat_r), fcos(dec_i)), fcos(ha_r)))));
    let alt = s_add(alt0, refraction(w.pressure.v, w.temperature.v, alt0));
    let dm = s_div(s_sub(alt, CENTER_OF_SUN_ANGLE), s_mul(s_mul(s_mul(TWO_PI_DEG, fcos(dec_i)), fcos(lat_r)), fsin(ha_r)));
    s_mul(HRS_PER_DAY, s_add(m, dm))
}
/// transit: m0 = (alpha - L - theta0)/360; Dhuhr = 24 (m - H(m)/360) with m = m0 folded into one day (Meeus ch. 15)   [C01]
pub open spec fn m_0(t: TopAstroDay) -> f64 {
    s_div(s_sub(s_sub(t.cur.ra_, t.coords_.longitude.v), t.cur.sid_), TWO_PI_DEG)
}
pub open spec fn dhuhr_hour(t: TopAstroDay, d: (f64, f64)) -> f64 {
    let m = cap1(m_0(t));
    s_mul(HRS_PER_DAY, s_sub(m, s_div(hour_angle(t.cur.sid_, t.cur.ra_, t.coords_.longitude.v, d, m), TWO_PI_DEG)))
}
pub open spec fn rise_set_hour(t: TopAstroDay, w: Weather, d: (f64, f64), dd: (f64, f64), m: f64) -> f64 {
    shur_magh(t.cur.dec_, t.cur.dra_, t.coords_.latitude.v, w, dd, m, hour_angle(t.cur.sid_, t.cur.ra_, t.coords_.longitude.v, d, m))
}
pub open spec fn dec_deltas(t: TopAstroDay) -> (f64, f64) {
    (s_sub(t.next.dec_, t.prev.dec_), s_add(s_sub(t.next.dec_, s_mul(2.0f64, t.cur.dec_)), t.prev.dec_))
}
pub uninterp spec fn ra_deltas(t: TopAstroDay) -> (f64, f64);
/// RA differences: bit-precise contract is the Kani obligation family c01_ra_*; here only "a function of the day's RA triple"
#[verifier::external_body]
fn get_ra_interp_deltas(top_astro_day: &TopAstroDay) -> (r: (f64, f64)) ensures r == ra_deltas(*top_astro_day) { unimplemented!() }

// ---------- Qibla (geo/qibla.rs)
pub struct Qibla { pub coords: Coordinates, pub degrees: f64 }
/// initial great-circle bearing: atan2(sin dLon, cos(lat) tan(latK) - sin(lat) cos dLon), dLon = lon - lonK   [C16]
pub open spec fn qibla_deg(lat: f64, lon: f64) -> f64 {
    let x = s_sub(frad(lon), frad(KAABA_LONGITUDE));
    let y = s_sub(s_mul(fcos(frad(lat)), ftan(frad(KAABA_LATITUDE))), s_mul(fsin(frad(lat)), fcos(x)));
    fdeg(fatan2(fsin(x), y))
}
'''

HOURS_CONSTS = ["MIN_SEC_PER_HR_MIN", "HRS_PER_DAY", "DEGREES_TO_10_BASE", "CENTER_OF_SUN_ANGLE"]

# rewrites shared by several functions (each must match exactly once in the function it is listed for)
def gen(repo):
    hsrc = open(os.path.join(repo, "src", "prayer_times", "hours.rs")).read()
    asrc = open(os.path.join(repo, "src", "angle.rs")).read()
    out = ""
    for c in HOURS_CONSTS:
        X.find_const(hsrc, c)          # anchors: these names are used by the specification formulas
    # every module-level f64 constant of hours.rs is re-emitted (so that a refactor introducing a named constant still extracts)
    for m in re.finditer(r"(?m)^(?:pub(?:\([a-z]+\))?\s+)?const\s+([A-Z0-9_]+)\s*:\s*f64\s*=\s*([^;]+);", hsrc):
        out += "pub const %s: f64 = %s;\n" % (m.group(1), m.group(2).strip())
    X.find_const(asrc, "TWO_PI_DEG")   # anchor
    # every f64 constant of angle.rs is re-emitted as well (a rewrite may name PI_DEG / RIGHT_ANG_DEG)
    for m in re.finditer(r"(?m)^(?:pub(?:\([a-z]+\))?\s+)?const\s+([A-Z0-9_]+)\s*:\s*f64\s*=\s*([^;]+);", asrc):
        out += "pub const %s: f64 = %s;\n" % (m.group(1), m.group(2).strip())
    out = PRELUDE.replace("verus! {\n", "verus! {\n" + out, 1)
    meta_all = {"edits": [], "outlined": []}
    LAT = "f64_from(top_astro_day.coords().latitude)"
    specs = [
        dict(fn="get_fajr_isha",
             rewrites=[("use Prayer::*;", ""),
                       ("(-params.angles[&Fajr])", "fneg(params.angles.idx(&Prayer::Fajr))"),
                       ("(-params.angles[&Isha])", "fneg(params.angles.idx(&Prayer::Isha))"),
                       ("f64::from(top_astro_day.coords().latitude)", LAT)],
             ensures=[
                 "r.0.is_ok() == within1(cos_h(fsin(frad(fnegs(params.angles.fajr))), top_astro_day.coords_.latitude.v, top_astro_day.cur.dec_))",
                 "r.1.is_ok() == within1(cos_h(fsin(frad(fnegs(params.angles.isha))), top_astro_day.coords_.latitude.v, top_astro_day.cur.dec_))",
                 "r.0.is_ok() ==> r.0.unwrap() == s_sub(dhuhr_hour, s_mul(DEGREES_TO_10_BASE, fdeg(facos(cos_h(fsin(frad(fnegs(params.angles.fajr))), top_astro_day.coords_.latitude.v, top_astro_day.cur.dec_)))))",
                 "r.1.is_ok() ==> r.1.unwrap() == s_add(dhuhr_hour, s_mul(DEGREES_TO_10_BASE, fdeg(facos(cos_h(fsin(frad(fnegs(params.angles.isha))), top_astro_day.coords_.latitude.v, top_astro_day.cur.dec_)))))",
             ]),
    ]
    specs += [
        dict(fn="get_asr", expand_opassign=True,
             rewrites=[("params.asr_shadow_ratio as u8 as f64", "madhab_f64(params.asr_shadow_ratio)"),
                       ("f64::from(top_astro_day.coords().latitude)", LAT)],
             ensures=[
                 "r.is_ok() == within1(asr_ratio(params.asr_shadow_ratio, top_astro_day.coords_.latitude.v, top_astro_day.cur.dec_))",
                 "r.is_ok() ==> r.unwrap() == s_add(dhuhr_hour, s_mul(DEGREES_TO_10_BASE, fdeg(facos(asr_ratio(params.asr_shadow_ratio, top_astro_day.coords_.latitude.v, top_astro_day.cur.dec_)))))",
             ]),
        dict(fn="get_shur_magh_m_0_adj",
             rewrites=[("f64::from(top_astro_day.coords().latitude)", LAT)],
             ensures=[
                 "r.is_ok() == within1(cos_h(fsin(frad(CENTER_OF_SUN_ANGLE)), top_astro_day.coords_.latitude.v, top_astro_day.cur.dec_))",
                 "r.is_ok() ==> r.unwrap() == s_div(cap180(fdeg(facos(cos_h(fsin(frad(CENTER_OF_SUN_ANGLE)), top_astro_day.coords_.latitude.v, top_astro_day.cur.dec_)))), TWO_PI_DEG)",
             ]),
        dict(fn="get_refraction",
             rewrites=[("f64::from(weather.pressure)", "f64_from(weather.pressure)"), ("f64::from(weather.temperature)", "f64_from(weather.temperature)")],
             ensures=["r == refraction(weather.pressure.v, weather.temperature.v, sun_alt)"]),
        dict(fn="get_dec_interp_deltas",
             ensures=["r.0 == s_sub(top_astro_day.next.dec_, top_astro_day.prev.dec_)",
                      "r.1 == s_add(s_sub(top_astro_day.next.dec_, s_mul(2.0f64, top_astro_day.cur.dec_)), top_astro_day.prev.dec_)"]),
        dict(fn="get_hour_angle",
             rewrites=[("f64::from(top_astro_day.coords().longitude)", "f64_from(top_astro_day.coords().longitude)")],
             ensures=["r == hour_angle(top_astro_day.cur.sid_, top_astro_day.cur.ra_, top_astro_day.coords_.longitude.v, ra_interp_deltas, val)"]),
        dict(fn="get_shur_magh", expand_opassign=True,
             rewrites=[("f64::from(top_astro_day.coords().latitude)", LAT)],
             ensures=["r == shur_magh(top_astro_day.cur.dec_, top_astro_day.cur.dra_, top_astro_day.coords_.latitude.v, weather, dec_interp_deltas, m_time, hour_angle)"]),
    ]
    specs += [
        dict(fn="get_shur_dhuhr_magh",
             rewrites=[("f64::from(top_astro_day.coords().longitude)", "f64_from(top_astro_day.coords().longitude)")],
             ensures=[
                 "r.1 == dhuhr_hour(*top_astro_day, ra_deltas(*top_astro_day))",
                 "r.0.is_ok() == r.2.is_ok()",
                 "r.0.is_ok() == within1(cos_h(fsin(frad(CENTER_OF_SUN_ANGLE)), top_astro_day.coords_.latitude.v, top_astro_day.cur.dec_))",
                 "r.0.is_ok() ==> r.0.unwrap() == rise_set_hour(*top_astro_day, weather, ra_deltas(*top_astro_day), dec_deltas(*top_astro_day), "
                 "cap1(s_sub(m_0(*top_astro_day), s_div(cap180(fdeg(facos(cos_h(fsin(frad(CENTER_OF_SUN_ANGLE)), top_astro_day.coords_.latitude.v, top_astro_day.cur.dec_)))), TWO_PI_DEG))))",
                 "r.2.is_ok() ==> r.2.unwrap() == rise_set_hour(*top_astro_day, weather, ra_deltas(*top_astro_day), dec_deltas(*top_astro_day), "
                 "cap1(s_add(m_0(*top_astro_day), s_div(cap180(fdeg(facos(cos_h(fsin(frad(CENTER_OF_SUN_ANGLE)), top_astro_day.coords_.latitude.v, top_astro_day.cur.dec_)))), TWO_PI_DEG))))",
             ]),
    ]
    fns = ""
    for s in specs:
        s.setdefault("opt_neg", True)   # optional respelling of a unary minus on a plain name (reported when applied)
        t, meta = X.extract(hsrc, s)
        meta_all["edits"] += ["%s: %s" % (s["fn"], e) for e in meta["edits"]]
        fns += t + "\n"
    out += fns
    qsrc = open(os.path.join(repo, "src", "geo", "qibla.rs")).read()
    for c in ("KAABA_LATITUDE", "KAABA_LONGITUDE"):
        ty, val = X.find_const(qsrc, c)
        out = out.replace("verus! {\n", "verus! {\npub const %s: %s = %s;\n" % (c, ty, val), 1)
    tq, meta = X.extract(qsrc, dict(fn="new", rename="qibla_new", opt_neg=True,
        rewrites=[("-> Self", "-> Qibla"), ("Self { coords, degrees }", "Qibla { coords, degrees }"),
                  ("f64::from(coords.latitude)", "f64_from(coords.latitude)"), ("f64::from(coords.longitude)", "f64_from(coords.longitude)")],
        ensures=["r.degrees == qibla_deg(coords.latitude.v, coords.longitude.v)", "r.coords == coords"]))
    meta_all["edits"] += ["Qibla::new: %s" % e for e in meta["edits"]]
    out += tq
    out += "\n} // verus!\nfn main() {}\n"
    return out, meta_all


CLAUSES = {
    "get_fajr_isha": "Fajr/Isha: Ok iff guard(cos H) with cos H = (sin(-angle) - sin lat sin dec)/(cos lat cos dec) for the configured Fajr resp. Isha angle; "
                     "value = Dhuhr -/+ (1/15) deg(acos(cos H)); reads only angles[Fajr], angles[Isha], latitude, the day's declination and Dhuhr",
    "get_asr": "Asr: altitude a with cot a = k + tan|lat - dec| (k = 1 Shafi, 2 Hanafi); Ok iff guard(cos H); value = Dhuhr + (1/15) deg(acos(cos H)); "
               "the only reader of the shadow ratio",
    "get_shur_magh_m_0_adj": "rise/set arc: Ok iff guard(cos H0) for h0 = CENTER_OF_SUN_ANGLE; value = cap180(deg(acos(cos H0)))/360",
    "get_refraction": "refraction term = (P/1010)(283/(273+T)) * 1.02/(deg(tan(rad(h + 10.3/(h+5.11)))) + 0.0019279) / 60: the only reader of the weather",
    "get_dec_interp_deltas": "declination differences (next - prev, next - 2 cur + prev)",
    "get_hour_angle": "H(n) = capb180(cap360(theta0 + 360.985647 n) + L - (alpha + n (d1 + d2 n)/2))",
    "get_shur_magh": "rise/set correction: altitude at the approximate time from interpolated declination and H - dra, plus refraction; "
                     "delta m = (h - h0)/(360 cos d cos phi sin H); result 24 (m + delta m)",
    "get_shur_dhuhr_magh": "Dhuhr = 24 (m - H(m)/360), m = cap1((alpha - L - theta0)/360), always produced; Shurooq and Maghrib are Ok together, exactly "
                           "when the rise/set arc exists, at m0 -/+ arc, each corrected once; weather reaches only the two corrections",
    "qibla_new": "Qibla::new: degrees = deg(atan2(sin dLon, cos lat tan latK - sin lat cos dLon)), dLon = lon - lonK; coords returned; elevation not read",
}


def vob(names, tag):
    return dict(name="fml_" + tag, gen=gen, obligations=names, vacuity=[], clauses=CLAUSES, cap=300, ignore_other_failures=True)
