"""C14: Verus file generated on every run from src/prayer_times/date.rs (mechanical extraction)."""
import os, re
import verus_extract as X

PRELUDE = r'''
use vstd::prelude::*;
use std::ops::RangeInclusive;
verus! {

// ---------- chrono stand-in (assumed contracts on a dependency): a date is its day number;
// `date + Duration::days(d)` is day number + d inside chrono's date range; comparison is by day number.
#[derive(Clone, Copy, PartialEq, Eq)]
pub struct NaiveDate { pub n: i64 }
pub struct Duration { pub d: i64 }
impl Duration {
    #[verifier::external_body]
    pub fn days(d: i64) -> (r: Duration)
        requires -100_000_000 <= d <= 100_000_000,
        ensures r.d == d,
    { unimplemented!() }
}
impl NaiveDate {
    #[verifier::external_body]
    pub fn add(self, d: Duration) -> (r: NaiveDate)
        requires -100_000_000 <= self.n + d.d <= 100_000_000,
        ensures r.n == self.n + d.d,
    { unimplemented!() }
    // Ord::min / Ord::max on dates (assumed: by day number), so that a clamp spelled `.min(end)` stays inside the subset
    #[verifier::external_body]
    pub fn min(self, o: NaiveDate) -> (r: NaiveDate)
        ensures r.n == (if self.n <= o.n { self.n } else { o.n }),
    { unimplemented!() }
    #[verifier::external_body]
    pub fn max(self, o: NaiveDate) -> (r: NaiveDate)
        ensures r.n == (if self.n >= o.n { self.n } else { o.n }),
    { unimplemented!() }
}
impl vstd::std_specs::cmp::PartialOrdSpecImpl for NaiveDate {
    open spec fn obeys_partial_cmp_spec() -> bool { true }
    open spec fn partial_cmp_spec(&self, other: &NaiveDate) -> Option<core::cmp::Ordering> {
        if self.n < other.n { Some(core::cmp::Ordering::Less) } else if self.n == other.n { Some(core::cmp::Ordering::Equal) } else { Some(core::cmp::Ordering::Greater) }
    }
}
impl vstd::std_specs::cmp::PartialEqSpecImpl for NaiveDate {
    open spec fn obeys_eq_spec() -> bool { true }
    open spec fn eq_spec(&self, other: &NaiveDate) -> bool { self.n == other.n }
}
impl PartialOrd for NaiveDate {
    #[verifier::external_body]
    fn partial_cmp(&self, other: &NaiveDate) -> (r: Option<core::cmp::Ordering>)
    { unimplemented!() }
}
pub assume_specification<Idx>[ RangeInclusive::<Idx>::start ](r: &RangeInclusive<Idx>) -> (s: &Idx)
    ensures *s == r@.start;
pub assume_specification<Idx>[ RangeInclusive::<Idx>::end ](r: &RangeInclusive<Idx>) -> (s: &Idx)
    ensures *s == r@.end;

pub struct DateRange(pub RangeInclusive<NaiveDate>);
impl Clone for DateRange {   // derive(Clone) in the source: structural copy (assumed)
    #[verifier::external_body]
    fn clone(&self) -> (r: DateRange)
        ensures r == *self
    { unimplemented!() }
}

// ---------- specification (from the statement of C14)
pub open spec fn lo(r: DateRange) -> int { r.0@.start.n as int }
pub open spec fn hi(r: DateRange) -> int { r.0@.end.n as int }
pub open spec fn in_dom(r: DateRange) -> bool { -4_000_000 <= lo(r) <= 4_000_000 && -4_000_000 <= hi(r) <= 4_000_000 }
pub open spec fn ndays(r: DateRange) -> int { if hi(r) - lo(r) + 1 > 0 { hi(r) - lo(r) + 1 } else { 0 } }
pub open spec fn min(a: int, b: int) -> int { if a <= b { a } else { b } }
/// "non-empty, contiguous, non-overlapping sub-ranges whose union is exactly [s, e]" in index form
pub open spec fn exact_cover(v: Seq<DateRange>, s: int, e: int) -> bool {
    &&& (forall|i: int| 0 <= i < v.len() ==> lo(#[trigger] v[i]) <= hi(v[i]))
    &&& (forall|i: int| 0 <= i < v.len() - 1 ==> lo(#[trigger] v[i + 1]) == hi(v[i]) + 1)
    &&& (e < s ==> v.len() == 0)
    &&& (s <= e ==> v.len() >= 1 && lo(v[0]) == s && hi(v[v.len() - 1]) == e)
}
proof fn lemma_mul_step(k: int, b: int)
    ensures (k + 1) * b == k * b + b
{ assert((k + 1) * b == k * b + b) by (nonlinear_arith); }
proof fn lemma_len_le_count(k: int, b: int, count: int, d: int)
    requires k >= 1, b >= 1, count >= 2, (k - 1) * b <= d - 1, b * count >= d, (b - 1) * count < d,
    ensures k <= count
{
    if k >= count + 1 {
        assert((k - 1) * b >= count * b) by (nonlinear_arith) requires k - 1 >= count, b >= 1;
        assert(count * b == b * count) by (nonlinear_arith);
    }
}
/// every day of [s,e] lies in exactly one sub-range (consequence of exact_cover; the union/no-overlap wording)
proof fn lemma_cover_unique(v: Seq<DateRange>, s: int, e: int, day: int, i: int, j: int)
    requires exact_cover(v, s, e), 0 <= i < j < v.len(), lo(v[i]) <= day <= hi(v[i]),
    ensures !(lo(v[j]) <= day <= hi(v[j])),
    decreases j - i,
{
    if i + 1 < j {
        // lo grows strictly along the sequence
        lemma_lo_increasing(v, s, e, i + 1, j);
    }
    assert(lo(v[i + 1]) == hi(v[i]) + 1);
}
proof fn lemma_lo_increasing(v: Seq<DateRange>, s: int, e: int, a: int, b: int)
    requires exact_cover(v, s, e), 0 <= a <= b < v.len(),
    ensures lo(v[a]) <= lo(v[b]),
    decreases b - a,
{
    if a < b {
        lemma_lo_increasing(v, s, e, a, b - 1);
        assert(lo(v[b - 1 + 1]) == hi(v[b - 1]) + 1);
    }
}
'''

PART_INV = [
    "in_dom(*self)", "days == ndays(*self)", "2 <= count <= 65536", "count <= 64 || days <= 20_000",
    "block_size * count >= days", "days > 0 ==> (block_size - 1) * count < days", "days == 0 ==> block_size == 0", "0 <= block_size <= 8_000_001",
    "start_date_iter.n == lo(*self) + date_ranges@.len() * block_size",
    "date_ranges@.len() >= 1 ==> lo(*self) + (date_ranges@.len() - 1) * block_size <= hi(*self)",
    "forall|i: int| 0 <= i < date_ranges@.len() ==> lo(#[trigger] date_ranges@[i]) == lo(*self) + i * block_size"
    " && hi(date_ranges@[i]) == min(lo(*self) + (i + 1) * block_size - 1, hi(*self))",
]
PART_BODY_START = "let ghost old_v = date_ranges@;"
PART_PROOF = ("assert(days >= 1); "
              "assert(block_size >= 1) by (nonlinear_arith) requires block_size * count >= days, days >= 1, count >= 2, block_size >= 0; "
              "lemma_mul_step(date_ranges@.len() as int, block_size as int);")
PART_PROOF_END = ("assert(date_ranges@.len() == old_v.len() + 1); "
                  "assert(forall|i: int| 0 <= i < old_v.len() ==> #[trigger] date_ranges@[i] == old_v[i]); "
                  "lemma_mul_step(old_v.len() as int, block_size as int);")
PART_PROOF_AFTER = r'''
            let k = date_ranges@.len() as int;
            let b = block_size as int;
            if k >= 1 {
                assert(days >= 1);
                assert(b >= 1) by (nonlinear_arith) requires b * count >= days, days >= 1, count >= 2, b >= 0;
                lemma_len_le_count(k, b, count as int, days as int);
                assert forall|i: int| 0 <= i < k - 1 implies lo(#[trigger] date_ranges@[i + 1]) == hi(date_ranges@[i]) + 1 by {
                    lemma_mul_step(i, b);
                    lemma_mul_step(i + 1, b);
                    assert((i + 1) * b <= (k - 1) * b) by (nonlinear_arith) requires i + 1 <= k - 1, b >= 1;
                }
                lemma_mul_step(k - 1, b);
                assert forall|i: int| 0 <= i < k implies lo(#[trigger] date_ranges@[i]) <= hi(date_ranges@[i]) by {
                    lemma_mul_step(i, b);
                    assert(i * b <= (k - 1) * b) by (nonlinear_arith) requires i <= k - 1, b >= 1;
                }
            }
'''

OUTLINE = dict(marker=".ceil()", name="outlined_partition_1", args=["days: usize", "count: usize"], ret="i64",
               requires=["2 <= count", "(days <= 8_000_001 && count <= 64) || (days <= 20_000 && count <= 65536)"],
               ensures=["r * count >= days", "days > 0 ==> (r - 1) * count < days", "days == 0 ==> r == 0", "0 <= r <= 8_000_001"])


def gen(repo):
    src = open(os.path.join(repo, "src", "prayer_times", "date.rs")).read()
    out = PRELUDE
    meta_all = {"edits": [], "outlined": []}
    specs = [
        dict(fn="start_date", ensures=["r.n == lo(*self)"], attrs=[]),
        dict(fn="end_date", ensures=["r.n == hi(*self)"]),
        dict(fn="partition", attrs=["verifier::loop_isolation(false)"],   # facts about immutable locals bound before the loop stay visible in it
             requires=["in_dom(*self)", "count <= 64 || (ndays(*self) <= 20_000 && count <= 65536)"],
             ensures=["count < 2 ==> r@.len() == 1 && r@[0] == *self",
                      "count >= 2 ==> exact_cover(r@, lo(*self), hi(*self))",
                      "count >= 2 ==> r@.len() <= count"],
             outline=[OUTLINE],
             loops=[dict(invariant=PART_INV,
                         decreases="(if start_date_iter.n <= hi(*self) { hi(*self) - start_date_iter.n + 1 } else { 0 })",
                         body_start=PART_BODY_START, proof=PART_PROOF, proof_end=PART_PROOF_END,
                         proof_after=PART_PROOF_AFTER)]),
    ]
    body = ""
    ext = ""
    for s in specs:
        t, meta = X.extract(src, s)
        meta_all["edits"] += ["%s: %s" % (s["fn"], e) for e in meta["edits"]]
        for o in meta["outlined"]:
            meta_all["outlined"].append(o)
            ext += X.external_fn(o["name"], o["args"], o["ret"], o["requires"], o["ensures"])
        body += t + "\n"
    # num_days: contract discharged by the Kani obligation c14_num_days (chrono subtraction assumed)
    body += ("#[verifier::external_body]\nfn num_days(&self) -> (r: usize)\n    requires in_dom(*self),\n"
             "    ensures r == ndays(*self),\n{ unimplemented!() }\n")
    out += ext + "impl DateRange {\n" + body + "}\n"
    out += X.vacuity_fn("partition", ["this: DateRange", "count: usize"], ["in_dom(this)", "count >= 2", "lo(this) <= hi(this)"])
    out += "\n} // verus!\nfn main() {}\n"
    return out, meta_all


def pregen(repo):
    path = os.path.join(repo, "src", "verif_kani", "gen_c14_outlined.rs")
    try:
        _, meta = gen(repo)
        o = meta["outlined"][0]
        text = ("// GENERATED on every run by /verif/lib/verus_c14.py from src/prayer_times/date.rs (fn partition):\n"
                "// the statement `%s;` verbatim.\n"
                "pub(crate) fn %s(%s) -> %s {\n    %s\n}\n"
                "macro_rules! c14_bs {\n    ($name:ident, $dmax:expr, $clo:expr, $chi:expr) => {\n"
                "#[kani::proof]\n#[kani::solver(kissat)]\npub fn $name() {\n"
                "    let days: usize = kani::any();\n    let count: usize = kani::any();\n"
                "    kani::assume(days <= $dmax && count >= $clo && count <= $chi);\n"
                "    crate::vcover!();\n"
                "    let r = %s(days, count) as i64;\n"
                "    assert!(0 <= r && r <= 8_000_001, \"C14 block size in range\");\n"
                "    assert!(r * count as i64 >= days as i64, \"C14 block size * count covers the days (ceil is not too small)\");\n"
                "    assert!(days == 0 || (r - 1) * (count as i64) < days as i64, \"C14 block size is the ceiling (not too large)\");\n"
                "    assert!(days != 0 || r == 0, \"C14 block size of an empty range is 0\");\n"
                "}\n    };\n}\n"
                "c14_bs!(c14_outlined_partition_1, 4096, 2, 64);\n"
                "c14_bs!(c14_outlined_partition_1_d8m, 8_000_001, 2, 64);\n"
                "c14_bs!(c14_outlined_partition_1_c65536, 20_000, 65, 65536);\n"
                % (re.sub(r"\s+", " ", o["stmt"]), o["name"], ", ".join(o["args"]), o["ret"], o["rhs"], o["name"]))
    except (X.LostAnchor, IndexError, OSError) as e:
        text = "// extraction failed: %s (C14 reports the lost anchor)\n" % e
    open(path, "w").write(text)


VOB = dict(
    name="c14_partition",
    gen=gen,
    obligations=["start_date", "end_date", "partition", "lemma_mul_step", "lemma_len_le_count", "lemma_cover_unique",
                 "lemma_lo_increasing"],
    vacuity=["partition"],
    clauses={
        "partition": "count<2: [self]; else the result is an exact cover of [start,end] by non-empty contiguous non-overlapping "
                     "sub-ranges, at most count of them, empty for an empty range; loop terminates; no date overflow (unbounded count and length)",
        "start_date": "accessor returns the range start", "end_date": "accessor returns the range end",
        "lemma_cover_unique": "exact cover => every day lies in exactly one sub-range",
    },
    cap=300,
)
