//! Constructors for the private-field astro types so harnesses can build symbolic values
//! (child of geo/astro.rs; cfg(kani) only).
use super::*;

pub(crate) fn mk_astro(dra: f64, dec: f64, ra: f64, rsum: f64, sid_time: f64) -> Astro {
    Astro { dra, dec, ra, rsum, sid_time }
}
pub(crate) fn mk_tad(jd: JulianDay, coords: Coordinates, a: [Astro; 3]) -> TopAstroDay {
    TopAstroDay {
        astro_day: AstroDay { astros: vec![a[0], a[1], a[2]], julian_day: jd },
        coords,
        astros: vec![a[0], a[1], a[2]],
    }
}
/// geocentric triple of the day (what new_coords must reuse)
pub(crate) fn geo_bits(t: &TopAstroDay) -> [u64; 3] {
    [t.astro_day.astros[0].ra.to_bits(), t.astro_day.astros[1].ra.to_bits(), t.astro_day.astros[2].ra.to_bits()]
}
pub(crate) fn set_coords(t: &mut TopAstroDay, coords: Coordinates) {
    t.coords = coords;
}
