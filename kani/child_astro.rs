//! Constructors for the private-field astro types so harnesses can build symbolic values
//! (child of geo/astro.rs; cfg(kani) only).
use super::*;

pub(crate) fn mk_astro(dra: f64, dec: f64, ra: f64, rsum: f64, sid_time: f64) -> Astro {
    Astro { dra, dec, ra, rsum, sid_time }
}
pub(crate) fn mk_tad(jd: JulianDay, coords: Coordinates, a: [Astro; 3]) -> TopAstroDay {
    TopAstroDay {
        astro_day: AstroDay { astros: vec![a[0], a[1], a[2]], julian_day: jd },
        coords,
        astros: vec![a[0], a[1], a[2]],
    }
}
/// geocentric triple of the day (what new_coords must reuse)
pub(crate) fn geo_bits(t: &TopAstroDay) -> [u64; 3] {
    [t.astro_day.astros[0].ra.to_bits(), t.astro_day.astros[1].ra.to_bits(), t.astro_day.astros[2].ra.to_bits()]
}
pub(crate) fn set_coords(t: &mut TopAstroDay, coords: Coordinates) {
    t.coords = coords;
}

// C13 — AstroDay::new evaluates the ephemeris at jd-1, jd, jd+1 (spy on Astro::new)
pub static mut AN_ARGS: [u64; 3] = [0; 3];
pub static mut AN_N: usize = 0;
pub fn astro_new_spy(julian_day: f64) -> Astro {
    unsafe {
        if AN_N < 3 {
            AN_ARGS[AN_N] = julian_day.to_bits();
        }
        AN_N += 1;
    }
    Astro { dra: 0., dec: 0., ra: 0., rsum: 1., sid_time: 0. }
}
#[cfg(kani)]
#[kani::proof]
#[kani::unwind(5)]
#[kani::stub(Astro::new, astro_new_spy)]
pub fn c13_astro_day_triple() {
    let v: f64 = kani::any();
    kani::assume(v >= 2.3e6 && v <= 2.6e6);
    let jd = JulianDay { date: chrono::NaiveDate::from_yo_opt(2023, 100).unwrap(), gmt: crate::geo::coordinates::Gmt::try_from(0.).unwrap(), value: v };
    kani::cover!(true, "VACUITY-GUARD reachable");
    let ad = AstroDay::new(jd);
    unsafe {
        assert!(AN_N == 3, "C13 the day's ephemeris is a triple");
        assert!(AN_ARGS[0] == (v - 1.).to_bits() && AN_ARGS[1] == v.to_bits() && AN_ARGS[2] == (v + 1.).to_bits(), "C13 the ephemeris triple is evaluated at the previous, the current and the next Julian Day");
    }
    assert!(ad.julian_day.value.to_bits() == v.to_bits(), "C13 AstroDay keeps its Julian Day");
}

// C10 — new_coords recomputes the topocentric day from the SAME geocentric day with the substituted coordinates
pub static mut FA_JD: u64 = 0;
pub static mut FA_RA: [u64; 3] = [0; 3];
pub static mut FA_COORDS: [u64; 3] = [0; 3];
pub fn from_ad_spy(astro_day: AstroDay, coords: Coordinates) -> TopAstroDay {
    unsafe {
        FA_JD = astro_day.julian_day.value.to_bits();
        FA_RA = [astro_day.astros[0].ra.to_bits(), astro_day.astros[1].ra.to_bits(), astro_day.astros[2].ra.to_bits()];
        FA_COORDS = [f64::from(coords.latitude).to_bits(), f64::from(coords.longitude).to_bits(), f64::from(coords.elevation).to_bits()];
    }
    let a = astro_day.astros[1];
    TopAstroDay { astro_day, coords, astros: vec![a, a, a] }
}
#[kani::proof]
#[kani::unwind(5)]
#[kani::stub(TopAstroDay::from_ad, from_ad_spy)]
pub fn c10_new_coords_reuses_day() {
    let f = |lo: f64, hi: f64| { let v: f64 = kani::any(); kani::assume(v >= lo && v <= hi); v };
    let mk = |ra: f64| Astro { dra: 0., dec: 1., ra, rsum: 1., sid_time: 2. };
    let (r0, r1, r2) = (f(0., 360.), f(0., 360.), f(0., 360.));
    let jd = JulianDay { date: chrono::NaiveDate::from_yo_opt(2023, 100).unwrap(), gmt: crate::geo::coordinates::Gmt::try_from(0.).unwrap(), value: f(2.3e6, 2.6e6) };
    let c0 = Coordinates::new(crate::geo::coordinates::Latitude::try_from(f(-90., 90.)).unwrap(), crate::geo::coordinates::Longitude::try_from(f(-180., 180.)).unwrap(), crate::geo::coordinates::Elevation::try_from(0.).unwrap());
    let c1 = Coordinates::new(crate::geo::coordinates::Latitude::try_from(f(-90., 90.)).unwrap(), c0.longitude, c0.elevation);
    let t = TopAstroDay { astro_day: AstroDay { astros: vec![mk(r0), mk(r1), mk(r2)], julian_day: jd }, coords: c0, astros: vec![mk(r0), mk(r1), mk(r2)] };
    kani::cover!(true, "VACUITY-GUARD reachable");
    let n = t.new_coords(c1);
    unsafe {
        assert!(FA_JD == jd.value.to_bits() && FA_RA[0] == r0.to_bits() && FA_RA[1] == r1.to_bits() && FA_RA[2] == r2.to_bits(), "C10 the substitute-latitude day reuses the same day's geocentric ephemeris");
        assert!(FA_COORDS[0] == f64::from(c1.latitude).to_bits() && FA_COORDS[1] == f64::from(c1.longitude).to_bits() && FA_COORDS[2] == f64::from(c1.elevation).to_bits(), "C10 the substituted coordinates are the ones used");
    }
    assert!(n.coords() == c1, "C10 new_coords reports the substituted coordinates");
}
