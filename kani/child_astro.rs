//! Constructors for the private-field astro types so harnesses can build symbolic values
//! (child of geo/astro.rs; cfg(kani) only).
use super::*;

pub(crate) fn mk_astro(dra: f64, dec: f64, ra: f64, rsum: f64, sid_time: f64) -> Astro {
    Astro { dra, dec, ra, rsum, sid_time }
}
pub(crate) fn mk_tad(jd: JulianDay, coords: Coordinates, a: [Astro; 3]) -> TopAstroDay {
    TopAstroDay {
        astro_day: AstroDay { astros: vec![a[0], a[1], a[2]], julian_day: jd },
        coords,
        astros: vec![a[0], a[1], a[2]],
    }
}
/// geocentric triple of the day (what new_coords must reuse)
pub(crate) fn geo_bits(t: &TopAstroDay) -> [u64; 3] {
    [t.astro_day.astros[0].ra.to_bits(), t.astro_day.astros[1].ra.to_bits(), t.astro_day.astros[2].ra.to_bits()]
}
pub(crate) fn set_coords(t: &mut TopAstroDay, coords: Coordinates) {
    t.coords = coords;
}

// C13 — AstroDay::new evaluates the ephemeris at jd-1, jd, jd+1 (spy on Astro::new)
pub static mut AN_ARGS: [u64; 3] = [0; 3];
pub static mut AN_N: usize = 0;
pub fn astro_new_spy(julian_day: f64) -> Astro {
    unsafe {
        if AN_N < 3 {
            AN_ARGS[AN_N] = julian_day.to_bits();
        }
        AN_N += 1;
    }
    Astro { dra: 0., dec: 0., ra: 0., rsum: 1., sid_time: 0. }
}
#[cfg(kani)]
#[kani::proof]
#[kani::unwind(5)]
#[kani::stub(Astro::new, astro_new_spy)]
pub fn c13_astro_day_triple() {
    let v: f64 = kani::any();
    kani::assume(v >= 2.3e6 && v <= 2.6e6);
    let jd = JulianDay { date: chrono::NaiveDate::from_yo_opt(2023, 100).unwrap(), gmt: crate::geo::coordinates::Gmt::try_from(0.).unwrap(), value: v };
    kani::cover!(true, "VACUITY-GUARD reachable");
    let ad = AstroDay::new(jd);
    unsafe {
        assert!(AN_N == 3, "C13 the day's ephemeris is a triple");
        assert!(AN_ARGS[0] == (v - 1.).to_bits() && AN_ARGS[1] == v.to_bits() && AN_ARGS[2] == (v + 1.).to_bits(), "C13 the ephemeris triple is evaluated at the previous, the current and the next Julian Day");
    }
    assert!(ad.julian_day.value.to_bits() == v.to_bits(), "C13 AstroDay keeps its Julian Day");
}
