//! Root of the Kani-only verification modules (compiled under cfg(kani) only, injected
//! into a scratch copy of the repository; see /verif/lib/inject.py).
pub mod vmap;
pub mod c18;
pub mod hspec;

use crate::prayer_times::Prayer;

impl vmap::VKey for Prayer {
    fn vidx(&self) -> usize {
        *self as usize
    }
    fn vfrom(i: usize) -> Self {
        use Prayer::*;
        match i {
            0 => Imsaak,
            1 => Fajr,
            2 => Shurooq,
            3 => Dhuhr,
            4 => Asr,
            5 => Maghrib,
            _ => Isha,
        }
    }
}

/// Every harness ends its assumption prefix with this: the cover must be SATISFIED,
/// otherwise the obligation is vacuous (checked by the driver from Kani's output).
#[macro_export]
macro_rules! vcover {
    () => {
        kani::cover!(true, "VACUITY-GUARD reachable")
    };
}

/// one of the six keys hour_to_time is called with by prayer_times_dt (Imsaak uses the Fajr key)
pub fn any_prayer6() -> Prayer {
    let k: u8 = kani::any();
    kani::assume(k < 6);
    <Prayer as vmap::VKey>::vfrom(k as usize + 1)
}
pub fn any_prayer7() -> Prayer {
    let k: u8 = kani::any();
    kani::assume(k < 7);
    <Prayer as vmap::VKey>::vfrom(k as usize)
}

use crate::geo::astro::{Astro, TopAstroDay};
use crate::geo::coordinates::{Coordinates, Elevation, Gmt, Latitude, Longitude};
use crate::geo::julian_day::JulianDay;

pub fn any_f64_in(lo: f64, hi: f64) -> f64 {
    let v: f64 = kani::any();
    kani::assume(v >= lo && v <= hi);
    v
}
pub fn any_coords() -> Coordinates {
    Coordinates::new(
        Latitude::try_from(any_f64_in(-90., 90.)).unwrap(),
        Longitude::try_from(any_f64_in(-180., 180.)).unwrap(),
        Elevation::try_from(any_f64_in(-420., 8848.)).unwrap(),
    )
}
/// a Julian Day whose civil date is any day of a common or a leap year (incl. 29 February)
pub fn any_date_jd() -> JulianDay {
    let ord: u32 = kani::any();
    kani::assume(ord >= 1 && ord <= 366);
    let date = chrono::NaiveDate::from_yo_opt(if kani::any() { 2023 } else { 2024 }, ord);
    kani::assume(date.is_some());
    JulianDay { date: date.unwrap(), gmt: Gmt::try_from(0.).unwrap(), value: 2460116.5 }
}
pub fn fixed_jd() -> JulianDay {
    JulianDay { date: chrono::NaiveDate::from_yo_opt(2023, 172).unwrap(), gmt: Gmt::try_from(0.).unwrap(), value: 2460116.5 }
}
/// a TopAstroDay whose astronomical content is arbitrary (finite) – for harnesses in which the
/// trig pipeline is replaced by stubs or not reached
pub fn any_tad(jd: JulianDay, coords: Coordinates) -> TopAstroDay {
    let a = crate::geo::astro::verif_kani_child::mk_astro(
        any_f64_in(-1., 1.), any_f64_in(-24., 24.), any_f64_in(0., 360.), any_f64_in(0.9, 1.1), any_f64_in(0., 360.));
    crate::geo::astro::verif_kani_child::mk_tad(jd, coords, [a, a, a])
}
