//! Root of the Kani-only verification modules (compiled under cfg(kani) only, injected
//! into a scratch copy of the repository; see /verif/lib/inject.py).
pub mod vmap;
pub mod c18;
pub mod hspec;

use crate::prayer_times::Prayer;

impl vmap::VKey for Prayer {
    fn vidx(&self) -> usize {
        *self as usize
    }
    fn vfrom(i: usize) -> Self {
        use Prayer::*;
        match i {
            0 => Imsaak,
            1 => Fajr,
            2 => Shurooq,
            3 => Dhuhr,
            4 => Asr,
            5 => Maghrib,
            _ => Isha,
        }
    }
}

/// Every harness ends its assumption prefix with this: the cover must be SATISFIED,
/// otherwise the obligation is vacuous (checked by the driver from Kani's output).
#[macro_export]
macro_rules! vcover {
    () => {
        kani::cover!(true, "VACUITY-GUARD reachable")
    };
}
