//! VMap: 7-slot direct-indexed finite map used in place of std::collections::HashMap
//! in prayer_times/{hours,ext_lat,mod,params}.rs *under cfg(kani) only*.
//! Assumption recorded in every evidence file that relies on it: std's HashMap
//! behaves as a finite map on the 7 `Prayer` keys. Function bodies are untouched.
use core::ops::Index;

pub trait VKey: Copy + PartialEq {
    fn vidx(&self) -> usize;
    fn vfrom(i: usize) -> Self;
}

pub const VN: usize = 7;

#[derive(Debug, Clone, Copy, PartialEq)]
pub struct VMap<K: VKey, V> {
    keys: [K; VN],
    slots: [Option<V>; VN],
}

impl<K: VKey, V> VMap<K, V> {
    pub fn new() -> Self {
        VMap {
            keys: [K::vfrom(0), K::vfrom(1), K::vfrom(2), K::vfrom(3), K::vfrom(4), K::vfrom(5), K::vfrom(6)],
            slots: [None, None, None, None, None, None, None],
        }
    }
    pub fn with_capacity(_n: usize) -> Self {
        Self::new()
    }
    pub fn insert(&mut self, k: K, v: V) -> Option<V> {
        core::mem::replace(&mut self.slots[k.vidx()], Some(v))
    }
    pub fn remove(&mut self, k: &K) -> Option<V> {
        self.slots[k.vidx()].take()
    }
    pub fn get(&self, k: &K) -> Option<&V> {
        self.slots[k.vidx()].as_ref()
    }
    pub fn get_mut(&mut self, k: &K) -> Option<&mut V> {
        self.slots[k.vidx()].as_mut()
    }
    pub fn contains_key(&self, k: &K) -> bool {
        self.slots[k.vidx()].is_some()
    }
    pub fn len(&self) -> usize {
        let mut n = 0;
        let mut i = 0;
        while i < VN {
            if self.slots[i].is_some() {
                n += 1;
            }
            i += 1;
        }
        n
    }
    pub fn is_empty(&self) -> bool {
        self.len() == 0
    }
    pub fn iter(&self) -> VIter<'_, K, V> {
        VIter { m: self, i: 0 }
    }
    pub fn keys(&self) -> VKeys<'_, K, V> {
        VKeys { it: self.iter() }
    }
    pub fn values(&self) -> VValues<'_, K, V> {
        VValues { it: self.iter() }
    }
}

impl<K: VKey, V> Default for VMap<K, V> {
    fn default() -> Self {
        Self::new()
    }
}

pub struct VIter<'a, K: VKey, V> {
    m: &'a VMap<K, V>,
    i: usize,
}

impl<'a, K: VKey, V> Iterator for VIter<'a, K, V> {
    type Item = (&'a K, &'a V);
    fn next(&mut self) -> Option<Self::Item> {
        while self.i < VN {
            let i = self.i;
            self.i += 1;
            if let Some(v) = self.m.slots[i].as_ref() {
                return Some((&self.m.keys[i], v));
            }
        }
        None
    }
}

pub struct VKeys<'a, K: VKey, V> {
    it: VIter<'a, K, V>,
}
impl<'a, K: VKey, V> Iterator for VKeys<'a, K, V> {
    type Item = &'a K;
    fn next(&mut self) -> Option<&'a K> {
        self.it.next().map(|x| x.0)
    }
}
pub struct VValues<'a, K: VKey, V> {
    it: VIter<'a, K, V>,
}
impl<'a, K: VKey, V> Iterator for VValues<'a, K, V> {
    type Item = &'a V;
    fn next(&mut self) -> Option<&'a V> {
        self.it.next().map(|x| x.1)
    }
}

impl<'a, K: VKey, V> IntoIterator for &'a VMap<K, V> {
    type Item = (&'a K, &'a V);
    type IntoIter = VIter<'a, K, V>;
    fn into_iter(self) -> VIter<'a, K, V> {
        self.iter()
    }
}

impl<K: VKey, V> FromIterator<(K, V)> for VMap<K, V> {
    fn from_iter<I: IntoIterator<Item = (K, V)>>(iter: I) -> Self {
        let mut m = VMap::new();
        let mut it = iter.into_iter();
        while let Some((k, v)) = it.next() {
            m.insert(k, v);
        }
        m
    }
}

impl<K: VKey, V> Index<&K> for VMap<K, V> {
    type Output = V;
    fn index(&self, k: &K) -> &V {
        // same observable behaviour as HashMap's Index: panic on a missing key
        self.slots[k.vidx()].as_ref().expect("no entry found for key")
    }
}

// serde: Params derives Serialize/Deserialize; under Kani the (de)serialisation of
// Params is never executed, the impls only have to exist.
impl<K: VKey, V> serde::Serialize for VMap<K, V> {
    fn serialize<S: serde::Serializer>(&self, s: S) -> Result<S::Ok, S::Error> {
        s.serialize_unit()
    }
}
impl<'de, K: VKey, V> serde::Deserialize<'de> for VMap<K, V> {
    fn deserialize<D: serde::Deserializer<'de>>(_d: D) -> Result<Self, D::Error> {
        Ok(VMap::new())
    }
}
