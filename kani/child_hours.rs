//! Contracts on prayer_times/hours.rs (child module: sees the private functions).
use super::*;
use crate::prayer_times::params::{Method, Params, RoundSeconds};
use chrono::Timelike;

pub fn mk_params(mode: RoundSeconds, prayer: Prayer, off: f64) -> Params {
    let mut p = Params::new(Method::Mwl);
    p.round_seconds = mode;
    p.minutes.insert(prayer, off);
    p
}

pub fn any_five() -> Prayer {
    let k: u8 = kani::any();
    kani::assume(k < 5);
    match k {
        0 => Prayer::Fajr,
        1 => Prayer::Dhuhr,
        2 => Prayer::Asr,
        3 => Prayer::Maghrib,
        _ => Prayer::Isha,
    }
}

/// seconds-within-the-minute of the wrapped instant, recomputed with the same IEEE
/// operations the code uses; only used to carve the documented 1 ms band below each
/// minute boundary out of the exact clause (see DESIGN.md C11).
fn sec_frac(h: f64) -> f64 {
    let mut hw = h;
    while hw < 0. {
        hw += 24.;
    }
    let m = (hw - hw.floor()) * 60.;
    (m - m.floor()) * 60.
}

/// The rounding contract, relative to the None-mode result of the same instant:
/// `five` = the prayer is one of Fajr/Dhuhr/Asr/Maghrib/Isha (Imsaak uses the Fajr key).
fn rounding_contract(mode: RoundSeconds, prayer: Prayer, five: bool, lo: f64, hi: f64) {
    let hour: f64 = kani::any();
    kani::assume(hour >= lo && hour < hi);
    crate::vcover!();
    let p0 = mk_params(RoundSeconds::None, prayer, 0.);
    let p1 = mk_params(mode, prayer, 0.);
    let t0 = hour_to_time(&p0, prayer, hour).num_seconds_from_midnight();
    let t1 = hour_to_time(&p1, prayer, hour).num_seconds_from_midnight();
    let idx0 = t0 / 60;
    let s0 = t0 % 60;
    assert!(t0 < 86400 && t1 < 86400, "C11 result is a time of day");
    assert!(t1 % 60 == 0, "C11 a rounding mode always reports whole minutes");
    let idx1 = t1 / 60;
    let up = match mode {
        RoundSeconds::NormalRounding => s0 >= 30,
        RoundSeconds::SpecialRounding => five && s0 >= 30,
        RoundSeconds::AggressiveRounding => five && s0 >= 1,
        RoundSeconds::None => false,
    };
    let in_band = sec_frac(hour) >= 59.999;
    if !in_band {
        assert!(idx1 == (idx0 + if up { 1 } else { 0 }) % 1440, "C11 minute is m+1 exactly when the unrounded second reaches the mode's threshold, carried through hour and midnight");
    } else {
        // within 1 ms below a minute boundary the added 1/60 h can land on the next minute
        assert!(idx1 == (idx0 + 1) % 1440 || idx1 == (idx0 + 2) % 1440 || (!up && idx1 == idx0), "C11 (1 ms band) minute moves by at most two");
    }
    kani::cover!(up && idx0 == 1439, "VACUITY-GUARD carry through midnight reachable");
}

macro_rules! c11 {
    ($name:ident, $mode:expr, five, $lo:expr, $hi:expr) => {
        #[kani::proof]
        #[kani::unwind(7)]
        pub fn $name() {
            rounding_contract($mode, any_five(), true, $lo, $hi);
        }
    };
    ($name:ident, $mode:expr, shurooq, $lo:expr, $hi:expr) => {
        #[kani::proof]
        #[kani::unwind(7)]
        pub fn $name() {
            rounding_contract($mode, Prayer::Shurooq, false, $lo, $hi);
        }
    };
}
c11!(c11_normal_five_pos, RoundSeconds::NormalRounding, five, 0., 24.);
c11!(c11_normal_five_neg1, RoundSeconds::NormalRounding, five, -24., 0.);
c11!(c11_normal_five_neg4, RoundSeconds::NormalRounding, five, -96., -24.);
c11!(c11_normal_shur_pos, RoundSeconds::NormalRounding, shurooq, 0., 24.);
c11!(c11_normal_shur_neg1, RoundSeconds::NormalRounding, shurooq, -24., 0.);
c11!(c11_normal_shur_neg4, RoundSeconds::NormalRounding, shurooq, -96., -24.);
c11!(c11_special_five_pos, RoundSeconds::SpecialRounding, five, 0., 24.);
c11!(c11_special_five_neg1, RoundSeconds::SpecialRounding, five, -24., 0.);
c11!(c11_special_five_neg4, RoundSeconds::SpecialRounding, five, -96., -24.);
c11!(c11_special_shur_pos, RoundSeconds::SpecialRounding, shurooq, 0., 24.);
c11!(c11_special_shur_neg1, RoundSeconds::SpecialRounding, shurooq, -24., 0.);
c11!(c11_special_shur_neg4, RoundSeconds::SpecialRounding, shurooq, -96., -24.);
c11!(c11_aggr_five_pos, RoundSeconds::AggressiveRounding, five, 0., 24.);
c11!(c11_aggr_five_neg1, RoundSeconds::AggressiveRounding, five, -24., 0.);
c11!(c11_aggr_five_neg4, RoundSeconds::AggressiveRounding, five, -96., -24.);
c11!(c11_aggr_shur_pos, RoundSeconds::AggressiveRounding, shurooq, 0., 24.);
c11!(c11_aggr_shur_neg1, RoundSeconds::AggressiveRounding, shurooq, -24., 0.);
c11!(c11_aggr_shur_neg4, RoundSeconds::AggressiveRounding, shurooq, -96., -24.);

/// None mode keeps the truncated second: T0 <= instant*3600 < T0 + 1 (within 1e-6 s of float slack)
macro_rules! c11_none {
    ($name:ident, $lo:expr, $hi:expr) => {
        #[kani::proof]
        #[kani::unwind(7)]
        pub fn $name() {
            let hour: f64 = kani::any();
            kani::assume(hour >= $lo && hour < $hi);
            let prayer: Prayer = crate::verif_kani::any_prayer6();
            crate::vcover!();
            let p0 = mk_params(RoundSeconds::None, prayer, 0.);
            let t0 = hour_to_time(&p0, prayer, hour).num_seconds_from_midnight();
            let mut hw = hour;
            while hw < 0. {
                hw += 24.;
            }
            // an instant that wraps to exactly 24 h is reported as 00:00:00
            let secs = if hw * 3600. >= 86400. { hw * 3600. - 86400. } else { hw * 3600. };
            assert!(t0 < 86400, "C11 result is a time of day");
            assert!((t0 as f64) <= secs + 1e-6 && secs < (t0 as f64) + 1. + 1e-6, "C11 no rounding keeps the truncated second of the instant");
        }
    };
}
c11_none!(c11_none_pos, 0., 24.);
c11_none!(c11_none_neg1, -24., 0.);
c11_none!(c11_none_neg4, -96., -24.);

// =====================================================================================
// C01 / C13 — right-ascension interpolation across the 360 -> 0 wrap.
// Contract (from the statement: "no wrap-induced jumps"): with the table unwrapped to the
// branch nearest `ra`, (d1, d2) are the first and second differences of the unwrapped
// table, as IEEE results in the code's operation order. Case split over boxes on which
// the wrap tests are decided by the box bounds alone.
use crate::geo::astro::verif_kani_child::{mk_astro, mk_tad};
use crate::verif_kani::{any_coords, any_f64_in, fixed_jd};

fn tad_with_ra(prev: f64, ra: f64, next: f64) -> TopAstroDay {
    let a = |r: f64| mk_astro(0., 0., r, 1., 100.);
    mk_tad(fixed_jd(), any_coords(), [a(prev), a(ra), a(next)])
}
fn ra_contract(prev: f64, ra: f64, next: f64) {
    crate::vcover!();
    let (d1, d2) = get_ra_interp_deltas(&tad_with_ra(prev, ra, next));
    let p = if prev - ra > 180. { prev - 360. } else { prev };
    let n = if ra - next > 180. { next + 360. } else { next };
    assert!(d1.to_bits() == (n - p).to_bits(), "C01/C13 first difference of the right-ascension table is taken on the unwrapped branch");
    assert!(d2.to_bits() == (n + p - 2. * ra).to_bits(), "C01/C13 second difference of the right-ascension table is taken on the unwrapped branch");
}
/// daily motion of the Sun's right ascension is between 0.85 and 1.15 degrees; boxes use [0.5, 1.5]
#[kani::proof]
pub fn c01_ra_interior() {
    let prev = any_f64_in(0., 360.);
    let ra = any_f64_in(0., 360.);
    let next = any_f64_in(0., 360.);
    kani::assume(ra - prev >= 0.5 && ra - prev <= 1.5 && next - ra >= 0.5 && next - ra <= 1.5);
    ra_contract(prev, ra, next);
}
#[kani::proof]
pub fn c01_ra_wrap_next() {
    // ra just below 360, next just above 0
    let ra = any_f64_in(358., 360.);
    let next = any_f64_in(0., 2.);
    let prev = any_f64_in(356., 360.);
    kani::assume(ra - prev >= 0.5 && ra - prev <= 1.5 && (next + 360.) - ra >= 0.5 && (next + 360.) - ra <= 1.5);
    ra_contract(prev, ra, next);
}
macro_rules! ra_wrap_prev {
    ($name:ident, $lo:expr, $hi:expr) => {
        #[kani::proof]
        pub fn $name() {
            // prev just below 360, ra just above 0 (the day after the wrap)
            let prev = any_f64_in($lo, $hi);
            let ra = any_f64_in(0., 2.);
            let next = any_f64_in(0., 4.);
            kani::assume((ra + 360.) - prev >= 0.5 && (ra + 360.) - prev <= 1.5 && next - ra >= 0.5 && next - ra <= 1.5);
            ra_contract(prev, ra, next);
        }
    };
}
ra_wrap_prev!(c01_ra_wrap_prev_a, 358., 359.);
ra_wrap_prev!(c01_ra_wrap_prev_b, 359., 359.5);
ra_wrap_prev!(c01_ra_wrap_prev_c, 359.5, 360.);
/// sanity range of the first difference (two days of solar motion)
#[kani::proof]
pub fn c01_ra_range() {
    let prev = any_f64_in(0., 360.);
    let ra = any_f64_in(0., 360.);
    let next = any_f64_in(0., 360.);
    let s1 = if prev - ra > 180. { ra + 360. - prev } else { ra - prev };
    let s2 = if ra - next > 180. { next + 360. - ra } else { next - ra };
    kani::assume(s1 >= 0.5 && s1 <= 1.5 && s2 >= 0.5 && s2 <= 1.5);
    crate::vcover!();
    let (d1, d2) = get_ra_interp_deltas(&tad_with_ra(prev, ra, next));
    assert!(d1 >= 0.9 && d1 <= 3.1, "C01/C13 two-day right-ascension motion stays between 0.9 and 3.1 degrees (no 360-degree jump)");
    assert!(d2 >= -1.1 && d2 <= 1.1, "C01/C13 second difference of right ascension is small (no 360-degree jump)");
}

// =====================================================================================
// C06 — the validity guard
#[kani::proof]
pub fn c06_within_abs_1() {
    let v: f64 = kani::any();
    crate::vcover!();
    let r = within_abs_1(v);
    assert!(r == (v >= -1. && v <= 1.), "C06 the domain guard accepts exactly [-1,1] (and rejects NaN)");
    kani::cover!(v.is_nan(), "VACUITY-GUARD NaN reachable");
}

// C07 — hour_to_time never panics and its loop terminates, for every finite hour in
// [-96,120], every key, every mode and every offset in [-1500,1500] minutes
#[kani::proof]
#[kani::unwind(8)]
pub fn c07_hour_to_time_no_panic() {
    let hour = any_f64_in(-70., 95.);
    let off = any_f64_in(-1500., 1500.);
    let prayer = crate::verif_kani::any_prayer7();
    let mode = match kani::any::<u8>() % 4 {
        0 => RoundSeconds::None,
        1 => RoundSeconds::NormalRounding,
        2 => RoundSeconds::SpecialRounding,
        _ => RoundSeconds::AggressiveRounding,
    };
    crate::vcover!();
    let p = mk_params(mode, prayer, off);
    let t = hour_to_time(&p, prayer, hour);
    assert!(t.num_seconds_from_midnight() < 86400, "C07 hour_to_time yields a time of day");
}
/// NaN hour (never produced by a guarded acos; recorded as explicit behaviour): no panic
#[kani::proof]
#[kani::unwind(8)]
pub fn c07_hour_to_time_nan() {
    let p = mk_params(RoundSeconds::SpecialRounding, Prayer::Fajr, 0.);
    crate::vcover!();
    let t = hour_to_time(&p, Prayer::Fajr, f64::NAN);
    assert!(t.num_seconds_from_midnight() == 0, "C07 a NaN hour is rendered as 00:00:00 without panicking");
}

// constants the formula-shape contracts refer to by name: their values are pinned here (tolerances from the statements)
#[kani::proof]
pub fn c02_constants() {
    crate::vcover!();
    assert!((CENTER_OF_SUN_ANGLE + 0.8333).abs() <= 0.001, "C02 the rise/set altitude constant is -0.833 degrees (upper limb on the refracted horizon)");
    assert!((DEGREES_TO_10_BASE * 15. - 1.).abs() <= 1e-12, "C03 hour angles are converted to hours at 15 degrees per hour");
    assert!(HRS_PER_DAY == 24. && MIN_SEC_PER_HR_MIN == 60. && TWO_PI_DEG == 360., "C01 day, hour and circle constants");
    assert!(DEF_ROUND_SEC == 30. && AGGRESSIVE_ROUND_SEC == 1., "C11 rounding thresholds are 30 s and 1 s");
}

// =====================================================================================
// C05 — get_hours assembles exactly the six hours, Dhuhr always Ok (stage results arbitrary)
pub fn sdm_any(_t: &TopAstroDay, _w: Weather) -> (Result<f64, ()>, f64, Result<f64, ()>) {
    let r = |ok: bool| if ok { Ok(any_f64_in(-48., 72.)) } else { Err(()) };
    (r(kani::any()), any_f64_in(-48., 72.), r(kani::any()))
}
pub fn fi_any(_p: &Params, _t: &TopAstroDay, _d: f64) -> (Result<f64, ()>, Result<f64, ()>) {
    let r = |ok: bool| if ok { Ok(any_f64_in(-48., 72.)) } else { Err(()) };
    (r(kani::any()), r(kani::any()))
}
pub fn asr_any(_p: &Params, _t: &TopAstroDay, _d: f64) -> Result<f64, ()> {
    if kani::any() { Ok(any_f64_in(-48., 72.)) } else { Err(()) }
}
#[kani::proof]
#[kani::unwind(9)]
#[kani::stub(get_shur_dhuhr_magh, sdm_any)]
#[kani::stub(get_fajr_isha, fi_any)]
#[kani::stub(get_asr, asr_any)]
pub fn c05_get_hours_keys() {
    let p = Params::new(crate::prayer_times::params::Method::Mwl);
    let t = crate::verif_kani::any_tad(fixed_jd(), any_coords());
    crate::vcover!();
    let h = get_hours(&p, &t, Weather::default());
    assert!(h.len() == 6 && h.get(&Prayer::Imsaak).is_none(), "C05 get_hours yields exactly the six hours");
    assert!(matches!(h[&Prayer::Dhuhr], Ok(_)), "C01 Dhuhr is always reported");
    for k in [Prayer::Fajr, Prayer::Shurooq, Prayer::Asr, Prayer::Maghrib, Prayer::Isha] {
        assert!(h.get(&k).is_some(), "C05 every hour key is present");
    }
}

// =====================================================================================
// C05 / C06 — sides of noon and "acos only inside its domain", from ONE range axiom:
// acos(x) in [0, pi] for x in [-1,1] (assumed contract on libm; sin/cos are CBMC's
// built-in nondeterministic values in [-1,1]; tan/atan arbitrary in their ranges).
pub fn acos_axiom(x: f64) -> f64 {
    assert!(x >= -1. && x <= 1., "C06 acos is applied only to a value the domain guard accepted (never out of domain, never NaN)");
    any_f64_in(0., core::f64::consts::PI)
}
pub fn tan_any(_x: f64) -> f64 {
    any_f64_in(-1.0e300, 1.0e300)
}
pub fn atan_any(_x: f64) -> f64 {
    any_f64_in(-core::f64::consts::FRAC_PI_2, core::f64::consts::FRAC_PI_2)
}
fn tad_lat_dec() -> TopAstroDay {
    let a = mk_astro(any_f64_in(-1., 1.), any_f64_in(-24., 24.), any_f64_in(0., 360.), 1., any_f64_in(0., 360.));
    mk_tad(fixed_jd(), any_coords(), [a, a, a])
}
#[kani::proof]
#[kani::unwind(9)]
#[kani::stub(f64::acos, acos_axiom)]
#[kani::stub(f64::tan, tan_any)]
#[kani::stub(f64::atan, atan_any)]
pub fn c05_sides_of_noon() {
    let mut p = Params::new(crate::prayer_times::params::Method::Mwl);
    p.angles.insert(Prayer::Fajr, any_f64_in(0., 25.));
    p.angles.insert(Prayer::Isha, any_f64_in(0., 25.));
    if kani::any() {
        p.asr_shadow_ratio = crate::prayer_times::params::AsrShadowRatio::Hanafi;
    }
    let t = tad_lat_dec();
    let dhuhr = any_f64_in(-24., 48.);
    crate::vcover!();
    let (f, i) = get_fajr_isha(&p, &t, dhuhr);
    if let Ok(f) = f {
        assert!(f <= dhuhr && f >= dhuhr - 12.000001, "C05 Fajr lies before that day's Dhuhr, within 12 hours of it");
    }
    if let Ok(i) = i {
        assert!(i >= dhuhr && i <= dhuhr + 12.000001, "C05 Isha lies after that day's Dhuhr, within 12 hours of it");
    }
    if let Ok(a) = get_asr(&p, &t, dhuhr) {
        assert!(a >= dhuhr && a <= dhuhr + 12.000001, "C04/C05 Asr lies after that day's Dhuhr, within 12 hours of it");
    }
    if let Ok(arc) = get_shur_magh_m_0_adj(&t) {
        assert!(arc >= 0. && arc <= 0.5000001, "C02 the semi-diurnal arc is between 0 and half a day");
    }
}

// =====================================================================================
// NOT ADMITTED (timed out at 1500 s on the unchanged tree; not registered in lib/props.py, kept for the record):
// C12 — a minute offset on the prayer's own key shifts the instant by exactly offset/60 h:
// with unrounded seconds the reported time is the truncated second of (hour + offset/60) folded into the day
#[kani::proof]
#[kani::unwind(7)]
pub fn c12_offset_shifts_instant() {
    let hour = any_f64_in(0., 24.);
    let off = any_f64_in(-1500., 1500.);
    let h = hour + off / 60.;
    kani::assume(h >= -24. && h < 24.);
    let prayer: Prayer = crate::verif_kani::any_prayer6();
    crate::vcover!();
    let p0 = mk_params(RoundSeconds::None, prayer, off);
    let t0 = hour_to_time(&p0, prayer, hour).num_seconds_from_midnight();
    let mut hw = h;
    while hw < 0. {
        hw += 24.;
    }
    let secs = if hw * 3600. >= 86400. { hw * 3600. - 86400. } else { hw * 3600. };
    assert!(t0 < 86400, "C12 result is a time of day");
    assert!((t0 as f64) <= secs + 1e-6 && secs < (t0 as f64) + 1. + 1e-6, "C12 a minute offset shifts exactly that prayer by exactly that many minutes (unrounded: the truncated second of hour + offset/60)");
    kani::cover!(h < 0., "VACUITY-GUARD offset pushes the instant before midnight");
}
