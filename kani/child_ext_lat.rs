//! C07 / C08 / C09 / C10 — contracts on prayer_times/ext_lat.rs (child module: sees the
//! private writers). get_hours / new_coords / test_fajr_isha are replaced by spy stubs
//! whose results are arbitrary: their own contracts are other obligations' business.
use super::*;
use crate::prayer_times::params::{ExtremeLatitudeMethod as E, Method, Params};
use crate::verif_kani::{any_coords, any_f64_in, any_tad, fixed_jd};
use crate::NEAREST_LATITUDE;

pub const KEYS6: [Prayer; 6] = [Prayer::Fajr, Prayer::Shurooq, Prayer::Dhuhr, Prayer::Asr, Prayer::Maghrib, Prayer::Isha];

/// an arbitrary conventional hour: Err, or any finite value in [-48, 72]
pub fn any_hour() -> Result<f64, ()> {
    if kani::any() {
        Ok(any_f64_in(-48., 72.))
    } else {
        Err(())
    }
}
pub fn any_hours() -> VMap<Prayer, Result<f64, ()>> {
    let mut h = VMap::new();
    h.insert(Prayer::Fajr, any_hour());
    h.insert(Prayer::Shurooq, any_hour());
    h.insert(Prayer::Dhuhr, Ok(any_f64_in(-48., 72.))); // Dhuhr is always reported (get_hours: Ok(dhuhr_hour))
    h.insert(Prayer::Asr, any_hour());
    h.insert(Prayer::Maghrib, any_hour());
    h.insert(Prayer::Isha, any_hour());
    h
}
/// parameters derived from a method by changing numeric fields and the policy (C07's domain)
pub fn any_params(elm: E) -> Params {
    let mut p = Params::new(Method::Mwl);
    p.extreme_latitude_method = elm;
    p.angles.insert(Prayer::Fajr, any_f64_in(0., 25.));
    p.angles.insert(Prayer::Isha, any_f64_in(0., 25.));
    p.intervals.insert(Prayer::Fajr, any_f64_in(0., 180.));
    p.intervals.insert(Prayer::Isha, any_f64_in(0., 180.));
    p
}

// ---------------------------------------------------------------- spies
pub static mut GH_CALLS: u32 = 0;
pub static mut GH_RET: [(bool, u64); 7] = [(false, 0); 7];
pub static mut GH_LAT: u64 = 0;
pub static mut GH_LON: u64 = 0;
pub static mut GH_ELEV: u64 = 0;
pub static mut GH_GEO: [u64; 3] = [0; 3];
pub static mut GH_ANG_FAJR: u64 = 0;

/// get_hours replaced: returns an arbitrary 6-key map (Dhuhr Ok) and records what it was asked and what it gave
pub fn get_hours_spy(params: &Params, t: &TopAstroDay, _w: Weather) -> VMap<Prayer, Result<f64, ()>> {
    let h = any_hours();
    unsafe {
        GH_CALLS += 1;
        let c = t.coords();
        GH_LAT = f64::from(c.latitude).to_bits();
        GH_LON = f64::from(c.longitude).to_bits();
        GH_ELEV = f64::from(c.elevation).to_bits();
        GH_GEO = crate::geo::astro::verif_kani_child::geo_bits(t);
        GH_ANG_FAJR = params.angles[&Prayer::Fajr].to_bits();
        let mut i = 0;
        while i < 6 {
            let k = KEYS6[i];
            GH_RET[k as usize] = match h[&k] {
                Ok(v) => (true, v.to_bits()),
                Err(()) => (false, 0),
            };
            i += 1;
        }
    }
    h
}
fn ret_of(k: Prayer) -> Result<u64, ()> {
    let (ok, b) = unsafe { GH_RET[k as usize] };
    if ok {
        Ok(b)
    } else {
        Err(())
    }
}

fn bits(r: &Result<f64, ()>) -> Result<u64, ()> {
    r.map(|v| v.to_bits())
}
fn obits(r: &Result<PrayerHour, ()>) -> Result<u64, ()> {
    r.map(|v| v.value.to_bits())
}
fn flagged(r: &Result<PrayerHour, ()>) -> bool {
    match r {
        Ok(p) => p.extreme,
        Err(()) => false,
    }
}

fn is_all_prayers(e: E) -> bool {
    matches!(e, E::NearestLatitudeAllPrayersAlways(_) | E::NearestGoodDayAllPrayersAlways)
}
fn is_invalid_only(e: E) -> bool {
    matches!(e, E::NearestLatitudeFajrIshaInvalid(_) | E::NearestGoodDayFajrIshaInvalid | E::SeventhOfNightFajrIshaInvalid
        | E::SeventhOfDayFajrIshaInvalid | E::HalfOfNightFajrIshaInvalid | E::MinutesFromMaghribFajrIshaInvalid)
}
fn is_half(e: E) -> bool {
    matches!(e, E::HalfOfNightFajrIshaAlways | E::HalfOfNightFajrIshaInvalid)
}

/// C08 (frames and flags) + C07 (Kani's default panic checks on the same run).
/// `angle_defined`: Fajr and Isha are defined by angle (both intervals 0) – the
/// quantification of C08 for the two interval-consuming policies.
pub fn c08_contract(elm: E, fajr_int: f64, isha_int: f64) {
    let hin = any_hours();
    let mut params = any_params(elm);
    params.intervals.insert(Prayer::Fajr, fajr_int);
    params.intervals.insert(Prayer::Isha, isha_int);
    let tad = any_tad(crate::verif_kani::any_date_jd(), any_coords());
    let w = Weather::default();
    crate::vcover!();
    let out = adj_for_ext_lat(&params, hin, &tad, w);

    // key set preserved: exactly the six hours
    assert!(out.get(&Prayer::Imsaak).is_none(), "C05 no Imsaak entry at this stage");
    let mut i = 0;
    while i < 6 {
        assert!(out.get(&KEYS6[i]).is_some(), "C05 every one of the six hours is present after the policy");
        i += 1;
    }
    // (i) a policy restricted to Fajr and Isha never changes Shurooq, Dhuhr, Asr, Maghrib
    if !is_all_prayers(elm) {
        for k in [Prayer::Shurooq, Prayer::Dhuhr, Prayer::Asr, Prayer::Maghrib] {
            assert!(obits(&out[&k]) == bits(&hin[&k]), "C08 Fajr/Isha policy leaves Shurooq, Dhuhr, Asr, Maghrib bit-identical");
            assert!(!flagged(&out[&k]), "C08 Fajr/Isha policy never flags Shurooq, Dhuhr, Asr, Maghrib");
        }
    }
    for (k, int) in [(Prayer::Fajr, fajr_int), (Prayer::Isha, isha_int)] {
        // conventional value of this key: the angle result, or the interval definition relative to Shurooq / Maghrib
        // (ii) an 'only if invalid' policy returns every conventionally valid, angle-defined Fajr/Isha unchanged and unflagged
        if is_invalid_only(elm) && int == 0. && hin[&k].is_ok() {
            assert!(obits(&out[&k]) == bits(&hin[&k]), "C08 'only if invalid' policy returns a valid Fajr/Isha bit-identical");
            assert!(!flagged(&out[&k]), "C08 'only if invalid' policy does not flag a valid Fajr/Isha");
        }
        // (iii) not flagged => conventional value; changed => flagged   (half-of-night exempt; angle-defined keys)
        if !is_half(elm) && int == 0. {
            if !flagged(&out[&k]) {
                assert!(obits(&out[&k]) == bits(&hin[&k]), "C08 a time not flagged extreme equals the conventional time");
            }
            if obits(&out[&k]) != bits(&hin[&k]) {
                assert!(flagged(&out[&k]), "C08 a replaced time is flagged extreme");
            }
        }
    }
    // (iv) no policy: nothing flagged, angle-defined Err pattern unchanged
    if elm == E::None {
        let mut i = 0;
        while i < 6 {
            assert!(!flagged(&out[&KEYS6[i]]), "C05/C06 with no policy nothing is flagged extreme");
            i += 1;
        }
        if fajr_int == 0. {
            assert!(obits(&out[&Prayer::Fajr]) == bits(&hin[&Prayer::Fajr]), "C06 no policy: Fajr validity and value propagated unchanged");
        }
        if isha_int == 0. {
            assert!(obits(&out[&Prayer::Isha]) == bits(&hin[&Prayer::Isha]), "C06 no policy: Isha validity and value propagated unchanged");
        }
    }
    kani::cover!(hin[&Prayer::Fajr].is_err() && hin[&Prayer::Shurooq].is_ok(), "VACUITY-GUARD invalid Fajr with valid Shurooq reachable");
}

// the search / recomputation back ends are stubbed in every ext_lat harness
pub fn new_coords_spy(t: &TopAstroDay, coords: crate::geo::coordinates::Coordinates) -> TopAstroDay {
    // same geocentric day, substituted coordinates (what the real new_coords does minus the parallax trig)
    let mut n = t.clone();
    crate::geo::astro::verif_kani_child::set_coords(&mut n, coords);
    n
}
pub static mut TFI_CALLS: u32 = 0;
/// validity test of a candidate day replaced by an arbitrary outcome on the first probe and
/// "valid" on the second (so the search loop of adj_near_good needs one iteration here; the
/// search itself is C09's obligation, the "nothing found" path leaves the map untouched).
pub fn test_fajr_isha_any(_p: &Params, _c: crate::geo::coordinates::Coordinates, _w: Weather, _jd: JulianDay)
    -> Option<VMap<Prayer, Result<f64, ()>>> {
    let n = unsafe {
        TFI_CALLS += 1;
        TFI_CALLS
    };
    if n >= 2 || kani::any() {
        let mut h = any_hours();
        h.insert(Prayer::Fajr, Ok(any_f64_in(-48., 72.)));
        h.insert(Prayer::Isha, Ok(any_f64_in(-48., 72.)));
        Some(h)
    } else {
        None
    }
}

// interval-defined Fajr/Isha: any interval in (0,180] (UmmAlQurra/FixedIsha use 90)
pub fn pos_int() -> f64 {
    let v = any_f64_in(0., 180.);
    kani::assume(v != 0.);
    v
}

macro_rules! c08 {
    ($name:ident, $elm:expr) => {
        #[kani::proof]
        #[kani::unwind(9)]
        #[kani::stub(crate::prayer_times::hours::get_hours, get_hours_spy)]
        #[kani::stub(crate::geo::astro::TopAstroDay::new_coords, new_coords_spy)]
        #[kani::stub(test_fajr_isha, test_fajr_isha_any)]
        pub fn $name() {
            // Fajr / Isha intervals: 0 (angle-defined) or any value up to 180 min (interval-defined)
            c08_contract($elm, any_f64_in(0., 180.), any_f64_in(0., 180.));
        }
    };
}
// all 15 policies; intervals symbolic (0 = angle-defined)
c08!(c08_none, E::None);
c08!(c08_angle_based, E::AngleBased);
c08!(c08_nl_all, E::NearestLatitudeAllPrayersAlways(NEAREST_LATITUDE));
c08!(c08_nl_fi_always, E::NearestLatitudeFajrIshaAlways(NEAREST_LATITUDE));
c08!(c08_nl_fi_inv, E::NearestLatitudeFajrIshaInvalid(NEAREST_LATITUDE));
c08!(c08_ngd_all, E::NearestGoodDayAllPrayersAlways);
c08!(c08_ngd_fi_inv, E::NearestGoodDayFajrIshaInvalid);
c08!(c08_sn_always, E::SeventhOfNightFajrIshaAlways);
c08!(c08_sn_inv, E::SeventhOfNightFajrIshaInvalid);
c08!(c08_sd_always, E::SeventhOfDayFajrIshaAlways);
c08!(c08_sd_inv, E::SeventhOfDayFajrIshaInvalid);
c08!(c08_hn_always, E::HalfOfNightFajrIshaAlways);
c08!(c08_hn_inv, E::HalfOfNightFajrIshaInvalid);
c08!(c08_min_always, E::MinutesFromMaghribFajrIshaAlways);
c08!(c08_min_inv, E::MinutesFromMaghribFajrIshaInvalid);

// =====================================================================================
// C09 — the nearest-good-day search. test_fajr_isha is replaced by a validity ORACLE: an
// arbitrary bit mask over day offsets -K..=K decides which candidate days are "good";
// a good day returns a map tagged with its offset. JulianDay::sub/add are used through
// their contract (value -/+ n; proved against chrono by c09_jd_step).
pub const BASE_JD: f64 = 2460116.5;
pub static mut ORACLE: u128 = 0;
pub static mut ORACLE_K: i64 = 0;

fn tag(off: i64, k: Prayer) -> f64 {
    off as f64 + 100. * (k as usize as f64)
}
pub fn tfi_oracle(_p: &Params, _c: crate::geo::coordinates::Coordinates, _w: Weather, jd: JulianDay)
    -> Option<VMap<Prayer, Result<f64, ()>>> {
    let off = (jd.value - BASE_JD) as i64; // exact: the values differ by whole days
    let k = unsafe { ORACLE_K };
    if off < -k || off > k {
        return None;
    }
    if (unsafe { ORACLE } >> ((off + k) as u32)) & 1 == 1 {
        let mut h = VMap::new();
        let mut i = 0;
        while i < 6 {
            h.insert(KEYS6[i], Ok(tag(off, KEYS6[i])));
            i += 1;
        }
        Some(h)
    } else {
        None
    }
}
pub fn jd_sub_contract(j: &JulianDay, days: u64) -> JulianDay {
    JulianDay { date: j.date, gmt: j.gmt, value: j.value - days as f64 }
}
pub fn jd_add_contract(j: &JulianDay, days: u64) -> JulianDay {
    JulianDay { date: j.date, gmt: j.gmt, value: j.value + days as f64 }
}

pub fn c09_contract(elm: E, k: i64) {
    let oracle: u128 = kani::any();
    kani::assume(oracle != 0 && (oracle >> ((2 * k + 1) as u32)) == 0); // some good day within k days
    unsafe {
        ORACLE = oracle;
        ORACLE_K = k;
    }
    // nearest good offset, the earlier date on ties (specification, from the statement)
    let mut best: i64 = 0;
    let mut found = false;
    let mut i: i64 = 0;
    while i <= k {
        if (oracle >> ((k - i) as u32)) & 1 == 1 {
            best = -i;
            found = true;
            break;
        }
        if (oracle >> ((k + i) as u32)) & 1 == 1 {
            best = i;
            found = true;
            break;
        }
        i += 1;
    }
    kani::assume(found);
    let hin = any_hours();
    let mut params = any_params(elm);
    params.intervals.insert(Prayer::Fajr, 0.);
    params.intervals.insert(Prayer::Isha, 0.);
    let all = elm == E::NearestGoodDayAllPrayersAlways;
    if !all {
        kani::assume(hin[&Prayer::Fajr].is_err() || hin[&Prayer::Isha].is_err());
    }
    // every day of the year, common and leap years: the search must not depend on the day of the year
    let mut jd = fixed_jd();
    let ord: u32 = kani::any();
    kani::assume(ord >= 1 && ord <= 366);
    let date = chrono::NaiveDate::from_yo_opt(if kani::any() { 2023 } else { 2024 }, ord);
    kani::assume(date.is_some());
    jd.date = date.unwrap();
    jd.value = BASE_JD;
    let tad = any_tad(jd, any_coords());
    crate::vcover!();
    let out = adj_for_ext_lat(&params, hin, &tad, Weather::default());
    for key in KEYS6 {
        let replaced = all || ((key == Prayer::Fajr || key == Prayer::Isha) && hin[&key].is_err());
        if replaced {
            assert!(obits(&out[&key]) == Ok(tag(best, key).to_bits()), "C09 a replaced time is the conventional time of the CLOSEST good date, earlier date on ties");
            assert!(flagged(&out[&key]), "C09 a time taken from the nearest good day is flagged extreme");
        } else {
            assert!(obits(&out[&key]) == bits(&hin[&key]) && !flagged(&out[&key]), "C09 times that exist (or are not named by the policy) are left as computed");
        }
    }
    kani::cover!(best < 0, "VACUITY-GUARD earlier date reachable");
    kani::cover!(best > 0, "VACUITY-GUARD later date reachable");
}

macro_rules! c09 {
    ($name:ident, $elm:expr, $k:expr, $unwind:expr) => {
        #[kani::proof]
        #[kani::unwind($unwind)]
        #[kani::stub(test_fajr_isha, tfi_oracle)]
        #[kani::stub(crate::geo::julian_day::JulianDay::sub, jd_sub_contract)]
        #[kani::stub(crate::geo::julian_day::JulianDay::add, jd_add_contract)]
        pub fn $name() {
            c09_contract($elm, $k);
        }
    };
}
c09!(c09_search_inv_k6, E::NearestGoodDayFajrIshaInvalid, 6, 9);
c09!(c09_search_all_k6, E::NearestGoodDayAllPrayersAlways, 6, 9);
c09!(c09_search_inv_k12, E::NearestGoodDayFajrIshaInvalid, 12, 15);
c09!(c09_search_all_k12, E::NearestGoodDayAllPrayersAlways, 12, 15);

// =====================================================================================
// C10 — nearest-latitude recomputation: what is handed to get_hours and what is copied back
pub fn c10_near_lat_contract(which: u8) {
    let nl = Latitude::try_from(any_f64_in(-90., 90.)).unwrap();
    let elm = match which {
        0 => E::NearestLatitudeAllPrayersAlways(nl),
        1 => E::NearestLatitudeFajrIshaAlways(nl),
        _ => E::NearestLatitudeFajrIshaInvalid(nl),
    };
    let hin = any_hours();
    let mut params = any_params(elm);
    params.intervals.insert(Prayer::Fajr, 0.);
    params.intervals.insert(Prayer::Isha, 0.);
    if which == 2 {
        kani::assume(hin[&Prayer::Fajr].is_err() || hin[&Prayer::Isha].is_err() || hin[&Prayer::Shurooq].is_err()
            || hin[&Prayer::Asr].is_err() || hin[&Prayer::Maghrib].is_err());
    }
    let coords = any_coords();
    let tad = any_tad(fixed_jd(), coords);
    let geo = crate::geo::astro::verif_kani_child::geo_bits(&tad);
    crate::vcover!();
    let out = adj_for_ext_lat(&params, hin, &tad, Weather::default());
    unsafe {
        assert!(GH_CALLS == 1, "C10 nearest-latitude recomputes the hours exactly once");
        assert!(GH_LAT == f64::from(nl).to_bits(), "C10 the recomputation uses the substitute latitude");
        assert!(GH_LON == f64::from(coords.longitude).to_bits() && GH_ELEV == f64::from(coords.elevation).to_bits(), "C10 the recomputation keeps longitude and elevation");
        assert!(GH_GEO[0] == geo[0] && GH_GEO[1] == geo[1] && GH_GEO[2] == geo[2], "C10 the recomputation reuses the same day's geocentric ephemeris");
        assert!(GH_ANG_FAJR == params.angles[&Prayer::Fajr].to_bits(), "C10 the recomputation uses the same parameters");
    }
    for key in [Prayer::Fajr, Prayer::Isha] {
        let take = which != 2 || hin[&key].is_err();
        if take && ret_of(key).is_ok() {
            assert!(obits(&out[&key]) == ret_of(key) && flagged(&out[&key]), "C10 Fajr/Isha are exactly the substitute-latitude values, flagged extreme");
        } else {
            assert!(obits(&out[&key]) == bits(&hin[&key]) && !flagged(&out[&key]), "C10 a Fajr/Isha that is not replaced stays as computed");
        }
    }
    for key in [Prayer::Shurooq, Prayer::Asr, Prayer::Maghrib] {
        if which == 0 {
            assert!(obits(&out[&key]) == ret_of(key), "C10 'all prayers' takes every time from the substitute latitude");
            assert!(out[&key].is_err() || flagged(&out[&key]), "C10 'all prayers' flags every replaced time");
        }
    }
    if which == 0 {
        assert!(flagged(&out[&Prayer::Dhuhr]), "C10 'all prayers' flags Dhuhr");
    }
}
macro_rules! c10nl {
    ($name:ident, $w:expr) => {
        #[kani::proof]
        #[kani::unwind(9)]
        #[kani::stub(crate::prayer_times::hours::get_hours, get_hours_spy)]
        #[kani::stub(crate::geo::astro::TopAstroDay::new_coords, new_coords_spy)]
        pub fn $name() {
            c10_near_lat_contract($w);
        }
    };
}
c10nl!(c10_nl_all, 0);
c10nl!(c10_nl_fi_always, 1);
c10nl!(c10_nl_fi_inv, 2);

// C10 — portion arithmetic, as bit equality with the statement's formula in IEEE arithmetic
// (one obligation per policy; float division makes these thorough-tier)
fn portion_contract(elm: E) {
    let mut hin = any_hours();
    let sh = any_f64_in(0., 24.);
    let mg = any_f64_in(0., 24.);
    hin.insert(Prayer::Shurooq, Ok(sh));
    hin.insert(Prayer::Maghrib, Ok(mg));
    let mut params = any_params(elm);
    let always = matches!(elm, E::SeventhOfNightFajrIshaAlways | E::SeventhOfDayFajrIshaAlways | E::MinutesFromMaghribFajrIshaAlways);
    let fi = if matches!(elm, E::MinutesFromMaghribFajrIshaAlways | E::MinutesFromMaghribFajrIshaInvalid) { any_f64_in(0., 180.) } else { 0. };
    let ii = if matches!(elm, E::MinutesFromMaghribFajrIshaAlways | E::MinutesFromMaghribFajrIshaInvalid) { any_f64_in(0., 180.) } else { 0. };
    params.intervals.insert(Prayer::Fajr, fi);
    params.intervals.insert(Prayer::Isha, ii);
    if !always {
        kani::assume(hin[&Prayer::Fajr].is_err() || hin[&Prayer::Isha].is_err() || hin[&Prayer::Asr].is_err());
    }
    let tad = any_tad(fixed_jd(), any_coords());
    crate::vcover!();
    let out = adj_for_ext_lat(&params, hin, &tad, Weather::default());
    let (wf, wi) = match elm {
        E::SeventhOfNightFajrIshaAlways | E::SeventhOfNightFajrIshaInvalid => {
            let p = (24. - (mg - sh)) / 7.;
            (sh - p, mg + p)
        }
        E::SeventhOfDayFajrIshaAlways | E::SeventhOfDayFajrIshaInvalid => {
            let p = (mg - sh) / 7.;
            (sh - p, mg + p)
        }
        E::AngleBased => {
            let night = 24. - mg + sh;
            (sh - 1. / 60. * params.angles[&Prayer::Fajr] * night, mg + 1. / 60. * params.angles[&Prayer::Isha] * night)
        }
        _ => (sh - fi / 60., mg + ii / 60.), // minutes from Shurooq / Maghrib
    };
    for (key, want) in [(Prayer::Fajr, wf), (Prayer::Isha, wi)] {
        let applies = always || elm == E::AngleBased || hin[&key].is_err();
        if applies {
            let tol_ok = match out[&key] {
                Ok(ph) => (ph.value - want).abs() <= 1.0 / 3600.0 && ph.extreme, // 1 s (the statement allows 3 s)
                Err(()) => false,
            };
            assert!(tol_ok, "C10 a replaced Fajr/Isha follows the policy's stated formula within one second and is flagged extreme");
        }
    }
}
macro_rules! c10p {
    ($name:ident, $elm:expr) => {
        #[kani::proof]
        #[kani::unwind(9)]
        #[kani::solver(kissat)]
        pub fn $name() {
            portion_contract($elm);
        }
    };
}
c10p!(c10_sn_always, E::SeventhOfNightFajrIshaAlways);
c10p!(c10_sn_inv, E::SeventhOfNightFajrIshaInvalid);
c10p!(c10_sd_always, E::SeventhOfDayFajrIshaAlways);
c10p!(c10_sd_inv, E::SeventhOfDayFajrIshaInvalid);
c10p!(c10_angle_based, E::AngleBased);
c10p!(c10_min_always, E::MinutesFromMaghribFajrIshaAlways);
c10p!(c10_min_inv, E::MinutesFromMaghribFajrIshaInvalid);

/// interval definition re-applied after the policy (and with no policy): Fajr = Shurooq - i/60, Isha = Maghrib + i/60
#[kani::proof]
#[kani::unwind(9)]
#[kani::solver(kissat)]
pub fn c10_interval_definition() {
    let mut hin = any_hours();
    let sh = any_f64_in(0., 24.);
    let mg = any_f64_in(0., 24.);
    hin.insert(Prayer::Shurooq, Ok(sh));
    hin.insert(Prayer::Maghrib, Ok(mg));
    let elm = match kani::any::<u8>() % 4 {
        0 => E::None,
        1 => E::SeventhOfNightFajrIshaAlways,
        2 => E::SeventhOfDayFajrIshaInvalid,
        _ => E::AngleBased,
    };
    let mut params = any_params(elm);
    let fi = pos_int();
    let ii = pos_int();
    params.intervals.insert(Prayer::Fajr, fi);
    params.intervals.insert(Prayer::Isha, ii);
    let tad = any_tad(fixed_jd(), any_coords());
    crate::vcover!();
    let out = adj_for_ext_lat(&params, hin, &tad, Weather::default());
    let okf = match out[&Prayer::Fajr] { Ok(ph) => (ph.value - (sh - fi / 60.)).abs() <= 1.0 / 3600.0, Err(()) => false };
    let oki = match out[&Prayer::Isha] { Ok(ph) => (ph.value - (mg + ii / 60.)).abs() <= 1.0 / 3600.0, Err(()) => false };
    assert!(okf && oki, "C10/C12 a Fajr/Isha that the method defines by an interval keeps that definition (Shurooq - i, Maghrib + i)");
}

/// C10 (quick tier, no arithmetic): WHERE the portion / minutes policies apply they produce a flagged value for both
/// Fajr and Isha ('always' variants and angle-based: both; 'invalid' variants: the missing ones), given Shurooq and Maghrib exist.
#[kani::proof]
#[kani::unwind(9)]
pub fn c10_portion_applies() {
    let elm = match kani::any::<u8>() % 7 {
        0 => E::SeventhOfNightFajrIshaAlways,
        1 => E::SeventhOfNightFajrIshaInvalid,
        2 => E::SeventhOfDayFajrIshaAlways,
        3 => E::SeventhOfDayFajrIshaInvalid,
        4 => E::AngleBased,
        5 => E::MinutesFromMaghribFajrIshaAlways,
        _ => E::MinutesFromMaghribFajrIshaInvalid,
    };
    let mut hin = any_hours();
    hin.insert(Prayer::Shurooq, Ok(any_f64_in(0., 24.)));
    hin.insert(Prayer::Maghrib, Ok(any_f64_in(0., 24.)));
    let mut params = any_params(elm);
    let minutes = matches!(elm, E::MinutesFromMaghribFajrIshaAlways | E::MinutesFromMaghribFajrIshaInvalid);
    if !minutes {
        params.intervals.insert(Prayer::Fajr, 0.);
        params.intervals.insert(Prayer::Isha, 0.);
    }
    let always = matches!(elm, E::SeventhOfNightFajrIshaAlways | E::SeventhOfDayFajrIshaAlways | E::MinutesFromMaghribFajrIshaAlways);
    let any_missing = hin[&Prayer::Fajr].is_err() || hin[&Prayer::Isha].is_err() || hin[&Prayer::Asr].is_err();
    let tad = any_tad(fixed_jd(), any_coords());
    crate::vcover!();
    let out = adj_for_ext_lat(&params, hin, &tad, Weather::default());
    for key in [Prayer::Fajr, Prayer::Isha] {
        let applies = always || (elm == E::AngleBased && any_missing) || (!always && elm != E::AngleBased && hin[&key].is_err());
        if applies {
            assert!(out[&key].is_ok() && flagged(&out[&key]), "C10 where a portion/minutes policy applies, Fajr and Isha are both produced and flagged extreme");
        }
    }
}

// C09 — the validity test of a candidate day: Some(hours of THAT day at the SAME place) iff Fajr and Isha both exist there
pub static mut TFI_FROM_JD: (u64, u64, u64) = (0, 0, 0);
pub fn from_jd_spy(jd: JulianDay, coords: crate::geo::coordinates::Coordinates) -> TopAstroDay {
    unsafe { TFI_FROM_JD = (jd.value.to_bits(), f64::from(coords.latitude).to_bits(), f64::from(coords.longitude).to_bits()) };
    any_tad(jd, coords)
}
#[kani::proof]
#[kani::unwind(9)]
#[kani::stub(crate::prayer_times::hours::get_hours, get_hours_spy)]
#[kani::stub(crate::geo::astro::TopAstroDay::from_jd, from_jd_spy)]
pub fn c09_test_fajr_isha() {
    let params = any_params(E::NearestGoodDayFajrIshaInvalid);
    let coords = any_coords();
    let mut jd = fixed_jd();
    jd.value = any_f64_in(2.3e6, 2.6e6);
    crate::vcover!();
    let r = test_fajr_isha(&params, coords, Weather::default(), jd);
    unsafe {
        assert!(GH_CALLS == 1, "C09 a candidate day is evaluated exactly once");
        assert!(TFI_FROM_JD.0 == jd.value.to_bits() && TFI_FROM_JD.1 == f64::from(coords.latitude).to_bits() && TFI_FROM_JD.2 == f64::from(coords.longitude).to_bits(),
            "C09 the candidate day is evaluated at its own Julian Day and at the requested place");
        assert!(GH_LAT == f64::from(coords.latitude).to_bits() && GH_ANG_FAJR == params.angles[&Prayer::Fajr].to_bits(), "C09 with the same coordinates and parameters");
    }
    let good = ret_of(Prayer::Fajr).is_ok() && ret_of(Prayer::Isha).is_ok();
    assert!(r.is_some() == good, "C09 a candidate day is good exactly when both Fajr and Isha exist on it");
    if let Some(h) = r {
        for k in KEYS6 {
            assert!(bits(&h[&k]) == ret_of(k), "C09 the good day's own conventional hours are what is handed back");
        }
    }
}
