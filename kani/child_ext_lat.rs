//! C07 / C08 / C09 / C10 — contracts on prayer_times/ext_lat.rs (child module: sees the
//! private writers). get_hours / new_coords / test_fajr_isha are replaced by spy stubs
//! whose results are arbitrary: their own contracts are other obligations' business.
use super::*;
use crate::prayer_times::params::{ExtremeLatitudeMethod as E, Method, Params};
use crate::verif_kani::{any_coords, any_f64_in, any_tad, fixed_jd};
use crate::NEAREST_LATITUDE;

pub const KEYS6: [Prayer; 6] = [Prayer::Fajr, Prayer::Shurooq, Prayer::Dhuhr, Prayer::Asr, Prayer::Maghrib, Prayer::Isha];

/// an arbitrary conventional hour: Err, or any finite value in [-48, 72]
pub fn any_hour() -> Result<f64, ()> {
    if kani::any() {
        Ok(any_f64_in(-48., 72.))
    } else {
        Err(())
    }
}
pub fn any_hours() -> VMap<Prayer, Result<f64, ()>> {
    let mut h = VMap::new();
    h.insert(Prayer::Fajr, any_hour());
    h.insert(Prayer::Shurooq, any_hour());
    h.insert(Prayer::Dhuhr, Ok(any_f64_in(-48., 72.))); // Dhuhr is always reported (get_hours: Ok(dhuhr_hour))
    h.insert(Prayer::Asr, any_hour());
    h.insert(Prayer::Maghrib, any_hour());
    h.insert(Prayer::Isha, any_hour());
    h
}
/// parameters derived from a method by changing numeric fields and the policy (C07's domain)
pub fn any_params(elm: E) -> Params {
    let mut p = Params::new(Method::Mwl);
    p.extreme_latitude_method = elm;
    p.angles.insert(Prayer::Fajr, any_f64_in(0., 25.));
    p.angles.insert(Prayer::Isha, any_f64_in(0., 25.));
    p.intervals.insert(Prayer::Fajr, any_f64_in(0., 180.));
    p.intervals.insert(Prayer::Isha, any_f64_in(0., 180.));
    p
}

// ---------------------------------------------------------------- spies
pub static mut GH_CALLS: u32 = 0;
pub static mut GH_RET: [(bool, u64); 7] = [(false, 0); 7];
pub static mut GH_LAT: u64 = 0;
pub static mut GH_LON: u64 = 0;
pub static mut GH_ELEV: u64 = 0;
pub static mut GH_GEO: [u64; 3] = [0; 3];
pub static mut GH_ANG_FAJR: u64 = 0;

/// get_hours replaced: returns an arbitrary 6-key map (Dhuhr Ok) and records what it was asked and what it gave
pub fn get_hours_spy(params: &Params, t: &TopAstroDay, _w: Weather) -> VMap<Prayer, Result<f64, ()>> {
    let h = any_hours();
    unsafe {
        GH_CALLS += 1;
        let c = t.coords();
        GH_LAT = f64::from(c.latitude).to_bits();
        GH_LON = f64::from(c.longitude).to_bits();
        GH_ELEV = f64::from(c.elevation).to_bits();
        GH_GEO = crate::geo::astro::verif_kani_child::geo_bits(t);
        GH_ANG_FAJR = params.angles[&Prayer::Fajr].to_bits();
        let mut i = 0;
        while i < 6 {
            let k = KEYS6[i];
            GH_RET[k as usize] = match h[&k] {
                Ok(v) => (true, v.to_bits()),
                Err(()) => (false, 0),
            };
            i += 1;
        }
    }
    h
}
fn ret_of(k: Prayer) -> Result<u64, ()> {
    let (ok, b) = unsafe { GH_RET[k as usize] };
    if ok {
        Ok(b)
    } else {
        Err(())
    }
}

fn bits(r: &Result<f64, ()>) -> Result<u64, ()> {
    r.map(|v| v.to_bits())
}
fn obits(r: &Result<PrayerHour, ()>) -> Result<u64, ()> {
    r.map(|v| v.value.to_bits())
}
fn flagged(r: &Result<PrayerHour, ()>) -> bool {
    match r {
        Ok(p) => p.extreme,
        Err(()) => false,
    }
}

fn is_all_prayers(e: E) -> bool {
    matches!(e, E::NearestLatitudeAllPrayersAlways(_) | E::NearestGoodDayAllPrayersAlways)
}
fn is_invalid_only(e: E) -> bool {
    matches!(e, E::NearestLatitudeFajrIshaInvalid(_) | E::NearestGoodDayFajrIshaInvalid | E::SeventhOfNightFajrIshaInvalid
        | E::SeventhOfDayFajrIshaInvalid | E::HalfOfNightFajrIshaInvalid | E::MinutesFromMaghribFajrIshaInvalid)
}
fn is_half(e: E) -> bool {
    matches!(e, E::HalfOfNightFajrIshaAlways | E::HalfOfNightFajrIshaInvalid)
}

/// C08 (frames and flags) + C07 (Kani's default panic checks on the same run).
/// `angle_defined`: Fajr and Isha are defined by angle (both intervals 0) – the
/// quantification of C08 for the two interval-consuming policies.
pub fn c08_contract(elm: E, fajr_int: f64, isha_int: f64) {
    let hin = any_hours();
    let mut params = any_params(elm);
    params.intervals.insert(Prayer::Fajr, fajr_int);
    params.intervals.insert(Prayer::Isha, isha_int);
    let tad = any_tad(fixed_jd(), any_coords());
    let w = Weather::default();
    crate::vcover!();
    let out = adj_for_ext_lat(&params, hin, &tad, w);

    // key set preserved: exactly the six hours
    assert!(out.get(&Prayer::Imsaak).is_none(), "C05 no Imsaak entry at this stage");
    let mut i = 0;
    while i < 6 {
        assert!(out.get(&KEYS6[i]).is_some(), "C05 every one of the six hours is present after the policy");
        i += 1;
    }
    // (i) a policy restricted to Fajr and Isha never changes Shurooq, Dhuhr, Asr, Maghrib
    if !is_all_prayers(elm) {
        for k in [Prayer::Shurooq, Prayer::Dhuhr, Prayer::Asr, Prayer::Maghrib] {
            assert!(obits(&out[&k]) == bits(&hin[&k]), "C08 Fajr/Isha policy leaves Shurooq, Dhuhr, Asr, Maghrib bit-identical");
            assert!(!flagged(&out[&k]), "C08 Fajr/Isha policy never flags Shurooq, Dhuhr, Asr, Maghrib");
        }
    }
    for (k, int) in [(Prayer::Fajr, fajr_int), (Prayer::Isha, isha_int)] {
        // conventional value of this key: the angle result, or the interval definition relative to Shurooq / Maghrib
        // (ii) an 'only if invalid' policy returns every conventionally valid, angle-defined Fajr/Isha unchanged and unflagged
        if is_invalid_only(elm) && int == 0. && hin[&k].is_ok() {
            assert!(obits(&out[&k]) == bits(&hin[&k]), "C08 'only if invalid' policy returns a valid Fajr/Isha bit-identical");
            assert!(!flagged(&out[&k]), "C08 'only if invalid' policy does not flag a valid Fajr/Isha");
        }
        // (iii) not flagged => conventional value; changed => flagged   (half-of-night exempt; angle-defined keys)
        if !is_half(elm) && int == 0. {
            if !flagged(&out[&k]) {
                assert!(obits(&out[&k]) == bits(&hin[&k]), "C08 a time not flagged extreme equals the conventional time");
            }
            if obits(&out[&k]) != bits(&hin[&k]) {
                assert!(flagged(&out[&k]), "C08 a replaced time is flagged extreme");
            }
        }
    }
    // (iv) no policy: nothing flagged, angle-defined Err pattern unchanged
    if elm == E::None {
        let mut i = 0;
        while i < 6 {
            assert!(!flagged(&out[&KEYS6[i]]), "C05/C06 with no policy nothing is flagged extreme");
            i += 1;
        }
        if fajr_int == 0. {
            assert!(obits(&out[&Prayer::Fajr]) == bits(&hin[&Prayer::Fajr]), "C06 no policy: Fajr validity and value propagated unchanged");
        }
        if isha_int == 0. {
            assert!(obits(&out[&Prayer::Isha]) == bits(&hin[&Prayer::Isha]), "C06 no policy: Isha validity and value propagated unchanged");
        }
    }
    kani::cover!(hin[&Prayer::Fajr].is_err() && hin[&Prayer::Shurooq].is_ok(), "VACUITY-GUARD invalid Fajr with valid Shurooq reachable");
}

// the search / recomputation back ends are stubbed in every ext_lat harness
pub fn new_coords_spy(t: &TopAstroDay, coords: crate::geo::coordinates::Coordinates) -> TopAstroDay {
    // same geocentric day, substituted coordinates (what the real new_coords does minus the parallax trig)
    let mut n = t.clone();
    crate::geo::astro::verif_kani_child::set_coords(&mut n, coords);
    n
}
pub static mut TFI_CALLS: u32 = 0;
/// validity test of a candidate day replaced by an arbitrary outcome on the first probe and
/// "valid" on the second (so the search loop of adj_near_good needs one iteration here; the
/// search itself is C09's obligation, the "nothing found" path leaves the map untouched).
pub fn test_fajr_isha_any(_p: &Params, _c: crate::geo::coordinates::Coordinates, _w: Weather, _jd: JulianDay)
    -> Option<VMap<Prayer, Result<f64, ()>>> {
    let n = unsafe {
        TFI_CALLS += 1;
        TFI_CALLS
    };
    if n >= 2 || kani::any() {
        let mut h = any_hours();
        h.insert(Prayer::Fajr, Ok(any_f64_in(-48., 72.)));
        h.insert(Prayer::Isha, Ok(any_f64_in(-48., 72.)));
        Some(h)
    } else {
        None
    }
}

// interval-defined Fajr/Isha: any interval in (0,180] (UmmAlQurra/FixedIsha use 90)
pub fn pos_int() -> f64 {
    let v = any_f64_in(0., 180.);
    kani::assume(v != 0.);
    v
}

macro_rules! c08 {
    ($name:ident, $elm:expr) => {
        #[kani::proof]
        #[kani::unwind(9)]
        #[kani::stub(crate::prayer_times::hours::get_hours, get_hours_spy)]
        #[kani::stub(crate::geo::astro::TopAstroDay::new_coords, new_coords_spy)]
        #[kani::stub(test_fajr_isha, test_fajr_isha_any)]
        pub fn $name() {
            // Fajr / Isha intervals: 0 (angle-defined) or any value up to 180 min (interval-defined)
            c08_contract($elm, any_f64_in(0., 180.), any_f64_in(0., 180.));
        }
    };
}
// all 15 policies; intervals symbolic (0 = angle-defined)
c08!(c08_none, E::None);
c08!(c08_angle_based, E::AngleBased);
c08!(c08_nl_all, E::NearestLatitudeAllPrayersAlways(NEAREST_LATITUDE));
c08!(c08_nl_fi_always, E::NearestLatitudeFajrIshaAlways(NEAREST_LATITUDE));
c08!(c08_nl_fi_inv, E::NearestLatitudeFajrIshaInvalid(NEAREST_LATITUDE));
c08!(c08_ngd_all, E::NearestGoodDayAllPrayersAlways);
c08!(c08_ngd_fi_inv, E::NearestGoodDayFajrIshaInvalid);
c08!(c08_sn_always, E::SeventhOfNightFajrIshaAlways);
c08!(c08_sn_inv, E::SeventhOfNightFajrIshaInvalid);
c08!(c08_sd_always, E::SeventhOfDayFajrIshaAlways);
c08!(c08_sd_inv, E::SeventhOfDayFajrIshaInvalid);
c08!(c08_hn_always, E::HalfOfNightFajrIshaAlways);
c08!(c08_hn_inv, E::HalfOfNightFajrIshaInvalid);
c08!(c08_min_always, E::MinutesFromMaghribFajrIshaAlways);
c08!(c08_min_inv, E::MinutesFromMaghribFajrIshaInvalid);
