//! C18 — validated quantities. Contracts over ALL 2^64 f64 bit patterns (loop-free
//! harnesses: complete proofs, not bounded).
use crate::{Bounded, Parsable};
use crate::geo::coordinates::{Elevation, Gmt, Latitude, Longitude};
use crate::geo::weather::{Pressure, Temperature};
use serde::de::{self, Deserialize, Deserializer, Visitor};

fn in_range(v: f64, lo: f64, hi: f64) -> bool {
    // the property's wording: finite and inside the closed range
    v.is_finite() && lo <= v && v <= hi
}

macro_rules! num_route {
    ($name:ident, $t:ty, $lo:expr, $hi:expr) => {
        /// number route: Ok <=> finite and in [lo,hi]; accepted value reads back bit-identical.
        #[kani::proof]
        fn $name() {
            let v: f64 = kani::any();
            crate::vcover!();
            let r = <$t as TryFrom<f64>>::try_from(v);
            assert!(r.is_ok() == in_range(v, $lo, $hi), "C18 number route accepts exactly the closed range");
            if let Ok(x) = r {
                assert!(f64::from(x).to_bits() == v.to_bits(), "C18 accepted value reads back bit-identical");
            }
            kani::cover!(r.is_ok(), "VACUITY-GUARD some value accepted");
            kani::cover!(r.is_err(), "VACUITY-GUARD some value rejected");
        }
    };
}
num_route!(c18_num_latitude, Latitude, -90., 90.);
num_route!(c18_num_longitude, Longitude, -180., 180.);
num_route!(c18_num_elevation, Elevation, -420., 8848.);
num_route!(c18_num_gmt, Gmt, -12., 12.);
num_route!(c18_num_pressure, Pressure, 100., 1050.);
num_route!(c18_num_temperature, Temperature, -90., 57.);

// ---------------------------------------------------------------------------------
// JSON route: the type's real (derive-generated) Deserialize impl is executed on a
// minimal Deserializer that delivers one JSON number token: an arbitrary f64, u64 or
// i64 (exactly what serde_json hands to a visitor for a number). Error construction
// drops the message (no formatting machinery under CBMC).
#[derive(Debug)]
pub struct NumErr;
impl core::fmt::Display for NumErr {
    fn fmt(&self, _f: &mut core::fmt::Formatter<'_>) -> core::fmt::Result {
        Ok(())
    }
}
impl std::error::Error for NumErr {}
impl de::Error for NumErr {
    fn custom<T: core::fmt::Display>(_msg: T) -> Self {
        NumErr
    }
}

#[derive(Clone, Copy)]
pub enum Tok {
    F(f64),
    U(u64),
    I(i64),
}
pub struct NumDe(pub Tok);

impl<'de> Deserializer<'de> for NumDe {
    type Error = NumErr;
    fn deserialize_any<V: Visitor<'de>>(self, v: V) -> Result<V::Value, NumErr> {
        match self.0 {
            Tok::F(x) => v.visit_f64(x),
            Tok::U(x) => v.visit_u64(x),
            Tok::I(x) => v.visit_i64(x),
        }
    }
    fn deserialize_f64<V: Visitor<'de>>(self, v: V) -> Result<V::Value, NumErr> {
        self.deserialize_any(v)
    }
    fn deserialize_newtype_struct<V: Visitor<'de>>(self, _n: &'static str, v: V) -> Result<V::Value, NumErr> {
        v.visit_newtype_struct(self)
    }
    serde::forward_to_deserialize_any! {
        bool i8 i16 i32 i64 i128 u8 u16 u32 u64 u128 f32 char str string
        bytes byte_buf option unit unit_struct seq tuple
        tuple_struct map struct enum identifier ignored_any
    }
}

fn any_tok() -> (Tok, f64) {
    let k: u8 = kani::any();
    if k == 0 {
        let x: f64 = kani::any();
        (Tok::F(x), x)
    } else if k == 1 {
        let x: u64 = kani::any();
        (Tok::U(x), x as f64)
    } else {
        let x: i64 = kani::any();
        (Tok::I(x), x as f64)
    }
}

macro_rules! json_route {
    ($name:ident, $t:ty, $lo:expr, $hi:expr) => {
        /// JSON route: Ok <=> the number is finite and in [lo,hi]; agrees with the number route.
        #[kani::proof]
        fn $name() {
            let (tok, v) = any_tok();
            crate::vcover!();
            let r = <$t as Deserialize>::deserialize(NumDe(tok));
            assert!(r.is_ok() == in_range(v, $lo, $hi), "C18 JSON route accepts exactly the closed range");
            let n = <$t as TryFrom<f64>>::try_from(v);
            assert!(r.is_ok() == n.is_ok(), "C18 JSON and number routes agree");
            if let Ok(x) = r {
                assert!(f64::from(x).to_bits() == v.to_bits(), "C18 JSON accepted value reads back bit-identical");
            }
            kani::cover!(r.is_ok(), "VACUITY-GUARD some value accepted");
            kani::cover!(r.is_err(), "VACUITY-GUARD some value rejected");
        }
    };
}
json_route!(c18_json_latitude, Latitude, -90., 90.);
json_route!(c18_json_longitude, Longitude, -180., 180.);
json_route!(c18_json_elevation, Elevation, -420., 8848.);
json_route!(c18_json_gmt, Gmt, -12., 12.);
json_route!(c18_json_pressure, Pressure, 100., 1050.);
json_route!(c18_json_temperature, Temperature, -90., 57.);

// ---------------------------------------------------------------------------------
// Text route: Parsable::parse with f64's FromStr replaced by an arbitrary outcome
// (decimal-to-binary correctness of core's dec2flt is a trusted dependency) and the
// Display impls that only build the error text stubbed out (error text is not part
// of the property; formatting floats does not finish under CBMC).
static mut PARSE_OUTCOME: Option<f64> = None;

pub fn f64_from_str_stub(_s: &str) -> Result<f64, core::num::ParseFloatError> {
    if kani::any() {
        let v: f64 = kani::any();
        unsafe { PARSE_OUTCOME = Some(v) };
        Ok(v)
    } else {
        unsafe { PARSE_OUTCOME = None };
        // ParseFloatError wraps a 1-byte fieldless enum (Empty | Invalid); 1 = Invalid
        Err(unsafe { core::mem::transmute::<u8, core::num::ParseFloatError>(1u8) })
    }
}
pub fn f64_fmt_stub(_e: &f64, _f: &mut core::fmt::Formatter<'_>) -> core::fmt::Result {
    Ok(())
}
pub fn pfe_fmt_stub(_e: &core::num::ParseFloatError, _f: &mut core::fmt::Formatter<'_>) -> core::fmt::Result {
    Ok(())
}

macro_rules! text_route {
    ($name:ident, $t:ty, $lo:expr, $hi:expr) => {
        /// text route: Ok <=> the f64 parse succeeded with a finite in-range value; same
        /// bits; agrees with the number route; never panics (Kani's default checks).
        #[kani::proof]
        #[kani::stub(<f64 as core::str::FromStr>::from_str, f64_from_str_stub)]
        #[kani::stub(<f64 as core::fmt::Display>::fmt, f64_fmt_stub)]
        #[kani::stub(<core::num::ParseFloatError as core::fmt::Display>::fmt, pfe_fmt_stub)]
        fn $name() {
            crate::vcover!();
            let r = <$t as core::str::FromStr>::from_str("x");
            let parsed = unsafe { PARSE_OUTCOME };
            match parsed {
                Some(v) => {
                    assert!(r.is_ok() == in_range(v, $lo, $hi), "C18 text route accepts exactly the closed range");
                    assert!(r.is_ok() == <$t as TryFrom<f64>>::try_from(v).is_ok(), "C18 text and number routes agree");
                    if let Ok(x) = r {
                        assert!(f64::from(x).to_bits() == v.to_bits(), "C18 text accepted value reads back bit-identical");
                    }
                }
                None => assert!(r.is_err(), "C18 malformed text is rejected"),
            }
            kani::cover!(r.is_ok(), "VACUITY-GUARD some text accepted");
            kani::cover!(r.is_err() && parsed.is_some(), "VACUITY-GUARD some parsed number rejected");
            kani::cover!(r.is_err() && parsed.is_none(), "VACUITY-GUARD malformed text rejected");
        }
    };
}
text_route!(c18_text_latitude, Latitude, -90., 90.);
text_route!(c18_text_longitude, Longitude, -180., 180.);
text_route!(c18_text_elevation, Elevation, -420., 8848.);
text_route!(c18_text_gmt, Gmt, -12., 12.);
