//! C17 — contracts on the real functions of hijri_date.rs (child module: sees the
//! private associated functions; their bodies are untouched). The requires/ensures
//! attributes themselves are in /verif/contracts/kani_contracts.json and are inserted
//! above the anchored `fn` by the injector.
use super::*;
use crate::verif_kani::hspec::*;

// ---- leaf: hijri_abs_date == integer formula, bit-precise through the f64 pipeline.
macro_rules! abs_slice {
    ($name:ident, $m:expr, $ylo:expr, $yhi:expr) => {
        #[kani::proof_for_contract(HijriDate::hijri_abs_date)]
        #[kani::solver(kissat)]
        pub fn $name() {
            let day: u8 = kani::any();
            let year: i32 = kani::any();
            kani::assume(year >= $ylo && year <= $yhi);
            crate::vcover!();
            HijriDate::hijri_abs_date(day, $m, year);
        }
    };
}
/// plain twin with an explicit assertion: used only to obtain concrete values that can be
/// replayed natively (contract clauses are not re-checked by `cargo kani playback`).
#[kani::proof]
#[kani::solver(kissat)]
pub fn c17_abs_x() {
    let day: u8 = kani::any();
    let month: u8 = kani::any();
    let year: i32 = kani::any();
    kani::assume(month >= 1 && month <= 12 && day >= 1 && day <= 30 && year >= -700 && year <= 10700);
    crate::vcover!();
    let r = HijriDate::hijri_abs_date(day, month, year);
    assert!(r as i64 == habs(day as i64, month as i64, year as i64), "C17 hijri_abs_date equals the integer formula");
}
#[kani::proof]
pub fn c17_leap_x() {
    let year: i32 = kani::any();
    kani::assume(year >= -700 && year <= 10700);
    crate::vcover!();
    assert!(HijriDate::is_hijri_leap_year(year) == leap(year as i64), "C17 leap rule is (11y+14) mod 30 < 11 (floor modulus)");
}
#[kani::proof]
pub fn c17_days_in_month_x() {
    let year: i32 = kani::any();
    let month: u8 = kani::any();
    kani::assume(month >= 1 && month <= 12 && year >= -700 && year <= 10700);
    crate::vcover!();
    assert!(HijriDate::days_in_month(month, year) as i64 == mlen(year as i64, month as i64), "C17 month length rule");
}
#[kani::proof]
pub fn c17_greg_abs_date_x() {
    let d = any_date(1, 9999);
    crate::vcover!();
    let r = HijriDate::greg_abs_date(d);
    assert!(r as i64 == rd(chrono::Datelike::year(&d) as i64, chrono::Datelike::ordinal(&d) as i64), "C17 Gregorian day number");
}
abs_slice!(c17_abs_m01, 1, -700, 10700);
abs_slice!(c17_abs_m02, 2, -700, 10700);
abs_slice!(c17_abs_m03, 3, -700, 10700);
abs_slice!(c17_abs_m04, 4, -700, 10700);
abs_slice!(c17_abs_m05, 5, -700, 10700);
abs_slice!(c17_abs_m06, 6, -700, 10700);
abs_slice!(c17_abs_m07, 7, -700, 10700);
abs_slice!(c17_abs_m08, 8, -700, 10700);
abs_slice!(c17_abs_m09, 9, -700, 10700);
abs_slice!(c17_abs_m10, 10, -700, 10700);
abs_slice!(c17_abs_m11, 11, -700, 10700);
abs_slice!(c17_abs_m12, 12, -700, 10700);

#[kani::proof_for_contract(HijriDate::is_hijri_leap_year)]
pub fn c17_leap() {
    let year: i32 = kani::any();
    crate::vcover!();
    HijriDate::is_hijri_leap_year(year);
}

#[kani::proof_for_contract(HijriDate::days_in_month)]
#[kani::stub_verified(HijriDate::is_hijri_leap_year)]
pub fn c17_days_in_month() {
    let year: i32 = kani::any();
    let month: u8 = kani::any();
    crate::vcover!();
    HijriDate::days_in_month(month, year);
}

// ---- Gregorian day number through chrono's real accessors
pub fn any_date(ylo: i32, yhi: i32) -> chrono::NaiveDate {
    let y: i32 = kani::any();
    let o: u32 = kani::any();
    kani::assume(y >= ylo && y <= yhi && o >= 1 && o <= 366);
    let d = chrono::NaiveDate::from_yo_opt(y, o);
    kani::assume(d.is_some());
    d.unwrap()
}

#[kani::proof_for_contract(HijriDate::greg_abs_date)]
pub fn c17_greg_abs_date() {
    let d = any_date(1, 9999);
    crate::vcover!();
    HijriDate::greg_abs_date(d);
}

// Kani twin of the statement the Verus extraction outlines (generated each run).
include!("gen_c17_outlined.rs");

// ---- composition check on the real From impl for a handful of concrete anchors is left
// to the exhaustive native sweep (rtcheck c17_sweep); the unbounded composition proof is
// the Verus obligation hijri_from.

/// accessors never panic on the invariant From establishes (1 <= month <= 12, 1 <= weekday <= 7; Verus obligation hijri_from)
#[kani::proof]
pub fn c17_accessors_total() {
    let month: u8 = kani::any();
    let weekday: u8 = kani::any();
    kani::assume(month >= 1 && month <= 12 && weekday >= 1 && weekday <= 7);
    let h = HijriDate { date: chrono::NaiveDate::from_yo_opt(2023, 1).unwrap(), day: 1, month, year: 1444, pre_epoch: kani::any(), weekday };
    crate::vcover!();
    assert!(h.month() as u8 == month, "C17 month() is total on 1..=12 and returns that month");
    assert!(h.day_of_week() as u8 == weekday, "C17 day_of_week() is total on 1..=7 and returns that weekday");
}
