//! C14 — contracts on prayer_times/date.rs
use super::*;
use crate::verif_kani::hspec::rd;
use chrono::Datelike;

fn any_date(ylo: i32, yhi: i32) -> chrono::NaiveDate {
    let y: i32 = kani::any();
    let o: u32 = kani::any();
    kani::assume(y >= ylo && y <= yhi && o >= 1 && o <= 366);
    let d = chrono::NaiveDate::from_yo_opt(y, o);
    kani::assume(d.is_some());
    d.unwrap()
}

// chrono's date subtraction is an assumed contract on a dependency here: it returns the
// signed whole number of days between the two dates (arbitrary k, recorded). The body of
// num_days (the +1, the clamp, the cast to usize) is what is under contract. Proving
// chrono's 400-year-cycle arithmetic equal to the day-number formula for two symbolic
// dates did not close in 30 min (measured); it is exercised natively by rtcheck c14_ranges.
static mut DIFF_DAYS: i64 = 0;
pub fn naive_date_sub_stub(_a: chrono::NaiveDate, _b: chrono::NaiveDate) -> chrono::Duration {
    let k: i64 = kani::any();
    kani::assume(k >= -3_700_000 && k <= 3_700_000);
    unsafe { DIFF_DAYS = k };
    chrono::Duration::days(k)
}

/// num_days == max(0, (end - start) in days + 1): 0 whenever the end precedes the start.
#[kani::proof]
#[kani::stub(<chrono::NaiveDate as core::ops::Sub<chrono::NaiveDate>>::sub, naive_date_sub_stub)]
pub fn c14_num_days() {
    let s = chrono::NaiveDate::from_yo_opt(2000, 1).unwrap();
    let e = chrono::NaiveDate::from_yo_opt(2000, 1).unwrap();
    crate::vcover!();
    let r = DateRange::from(s..=e).num_days();
    let k = unsafe { DIFF_DAYS };
    let expect = if k + 1 > 0 { k + 1 } else { 0 };
    assert!(r as i64 == expect, "C14 num_days is the inclusive day count, 0 when the end precedes the start");
    kani::cover!(k < -1, "VACUITY-GUARD end before start reachable");
}

// Kani twin of the block_size statement outlined by the Verus extraction (generated each run)
include!("gen_c14_outlined.rs");
