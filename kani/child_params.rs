//! C03 / C04 / C07 — contracts on prayer_times/params.rs
use super::*;

fn expect(m: Method) -> (f64, f64, f64, AsrShadowRatio) {
    // (Fajr angle, Isha angle, Isha interval, school) from the documented table
    match m {
        Method::None => (0., 0., 0., AsrShadowRatio::Shafi),
        Method::Egyptian => (20., 18., 0., AsrShadowRatio::Shafi),
        Method::Egypt => (19.5, 17.5, 0., AsrShadowRatio::Shafi),
        Method::Shafi => (18., 18., 0., AsrShadowRatio::Shafi),
        Method::Hanafi => (18., 18., 0., AsrShadowRatio::Hanafi),
        Method::Isna => (15., 15., 0., AsrShadowRatio::Shafi),
        Method::Mwl => (18., 17., 0., AsrShadowRatio::Shafi),
        Method::UmmAlQurra => (18., 0., 90., AsrShadowRatio::Shafi),
        Method::FixedIsha => (19.5, 0., 90., AsrShadowRatio::Shafi),
    }
}
fn any_method() -> Method {
    match kani::any::<u8>() % 9 {
        0 => Method::None,
        1 => Method::Egyptian,
        2 => Method::Egypt,
        3 => Method::Shafi,
        4 => Method::Hanafi,
        5 => Method::Isna,
        6 => Method::Mwl,
        7 => Method::UmmAlQurra,
        _ => Method::FixedIsha,
    }
}

#[kani::proof]
#[kani::unwind(9)]
pub fn c03_params_tables() {
    let m = any_method();
    crate::vcover!();
    let p = Params::new(m);
    let (fa, ia, ii, school) = expect(m);
    assert!(p.angles[&Prayer::Fajr] == fa && p.angles[&Prayer::Isha] == ia, "C03 per-method Fajr/Isha angles equal the documented table");
    assert!(p.angles[&Prayer::Imsaak] == 1.5, "C03 default Imsaak angle is 1.5 degrees");
    assert!(p.intervals[&Prayer::Isha] == ii && p.intervals[&Prayer::Fajr] == 0. && p.intervals[&Prayer::Imsaak] == 0., "C03 per-method intervals equal the documented table");
    assert!(p.asr_shadow_ratio == school, "C04 per-method Asr school equals the documented table");
    assert!(p.round_seconds == RoundSeconds::SpecialRounding, "C11 default rounding is SpecialRounding");
    assert!(p.extreme_latitude_method == ExtremeLatitudeMethod::NearestGoodDayFajrIshaInvalid, "C09 default policy is NearestGoodDayFajrIshaInvalid");
    for k in [Prayer::Imsaak, Prayer::Fajr, Prayer::Shurooq, Prayer::Dhuhr, Prayer::Asr, Prayer::Maghrib, Prayer::Isha] {
        assert!(p.minutes.get(&k) == Some(&0.), "C07 every offset key is present and 0");
    }
}

#[kani::proof]
pub fn c04_shadow_ratio() {
    crate::vcover!();
    assert!(AsrShadowRatio::Shafi as u8 == 1 && AsrShadowRatio::Hanafi as u8 == 2, "C04 shadow ratio discriminants are 1 (Shafi) and 2 (Hanafi)");
}
