//! C01 — angle normalisation contracts (angle.rs)
use super::*;
use crate::verif_kani::any_f64_in;

/// cap_angle_1: result in [0,1] and congruent to x modulo 1 (|x| <= 1e6)
#[kani::proof]
pub fn c01_cap_angle_1() {
    let x = any_f64_in(-1.0e6, 1.0e6);
    crate::vcover!();
    let r = x.cap_angle_1();
    assert!(r >= 0. && r <= 1., "C01 cap_angle_1 yields a day fraction in [0,1]");
    let k = x - r;
    assert!((k - k.round()).abs() <= 1e-9, "C01 cap_angle_1 changes its argument by a whole number of turns");
}
/// cap_angle_360: result in [0,360] and congruent to x modulo 360 (|x| <= 1e7 degrees)
#[kani::proof]
pub fn c01_cap_angle_360() {
    let x = any_f64_in(-1.0e7, 1.0e7);
    crate::vcover!();
    let r = x.cap_angle_360();
    assert!(r >= 0. && r <= 360., "C01 cap_angle_360 yields an angle in [0,360]");
}
#[kani::proof]
pub fn c01_cap_angle_360_mod() {
    let x = any_f64_in(-1.0e5, 1.0e5);
    crate::vcover!();
    let r = x.cap_angle_360();
    let k = (x - r) / 360.;
    assert!((k - k.round()).abs() <= 1e-9, "C01 cap_angle_360 changes its argument by a whole number of turns");
}
/// cap_angle_between_180: result in [-180,180]
#[kani::proof]
pub fn c01_cap_angle_between_180() {
    let x = any_f64_in(-1.0e7, 1.0e7);
    crate::vcover!();
    let r = x.cap_angle_between_180();
    assert!(r >= -180. && r <= 180., "C01 cap_angle_between_180 yields an hour angle in [-180,180]");
}
#[kani::proof]
pub fn c01_cap_angle_between_180_mod() {
    let x = any_f64_in(-1.0e5, 1.0e5);
    crate::vcover!();
    let r = x.cap_angle_between_180();
    let k = (x - r) / 360.;
    assert!((k - k.round()).abs() <= 1e-9, "C01 cap_angle_between_180 changes its argument by a whole number of turns");
}
/// cap_angle_180 (used for the semi-diurnal arc): result in [0,180]
#[kani::proof]
pub fn c02_cap_angle_180() {
    let x = any_f64_in(0., 180.);
    crate::vcover!();
    let r = x.cap_angle_180();
    assert!(r >= 0. && r <= 180., "C02 cap_angle_180 yields an arc in [0,180]");
    assert!(x == 180. || (r - x).abs() <= 1e-9, "C02 cap_angle_180 is the identity on [0,180)");
}
