//! C16 — contracts on geo/qibla.rs that need no trigonometric theory
use super::*;
use crate::verif_kani::{any_coords, any_f64_in};

/// rotation label agrees with the sign of the stored angle; coords() returns the argument
#[kani::proof]
pub fn c16_rotation_label() {
    let c = any_coords();
    let deg = any_f64_in(-180., 180.);
    crate::vcover!();
    let q = Qibla { coords: c, degrees: deg };
    assert!((q.rotation() == Rotation::Cw) == (deg < 0.), "C16 the rotation label is clockwise exactly for negative angles");
    assert!(q.degrees().to_bits() == deg.to_bits(), "C16 degrees() reports the stored angle");
    assert!(q.coords() == c, "C16 coords() returns the coordinates passed in");
}

#[kani::proof]
pub fn c16_constants() {
    crate::vcover!();
    assert!((Qibla::KAABA_LATITUDE - 21.4233).abs() <= 1e-4 && (Qibla::KAABA_LONGITUDE - 39.8233).abs() <= 1e-4, "C16 the Kaaba is at 21.4233 N, 39.8233 E");
}

// =====================================================================================
// C16 — "expressed in (-180,180]" and "does not depend on elevation", from ONE range axiom on libm:
// atan2(y, x) is a non-NaN value in [-pi, pi] (assumed contract; sin/cos are CBMC's built-in nondeterministic
// values in [-1,1], tan arbitrary). The stored angle is exactly to_degrees of what atan2 returned, so it lies in
// [-180, 180] (to_degrees(pi) is within 1e-9 of 180), is never NaN, and the label follows its sign.
pub fn atan2_axiom(_y: f64, _x: f64) -> f64 {
    any_f64_in(-core::f64::consts::PI, core::f64::consts::PI)
}
pub fn tan_any(_x: f64) -> f64 {
    any_f64_in(-1.0e300, 1.0e300)
}
#[kani::proof]
#[kani::stub(f64::atan2, atan2_axiom)]
#[kani::stub(f64::tan, tan_any)]
pub fn c16_angle_range() {
    let c = any_coords();
    crate::vcover!();
    let q = Qibla::new(c);
    let d = q.degrees();
    assert!(d >= -180.000000001 && d <= 180.000000001, "C16 the stored angle lies in [-180,180] whenever atan2 returns a value in [-pi,pi] (no additional folding or offset)");
    assert!((q.rotation() == Rotation::Cw) == (d < 0.), "C16 the rotation label of a constructed Qibla follows the sign of its angle");
    assert!(q.coords() == c, "C16 a constructed Qibla reports the coordinates it was built from");
}

// =====================================================================================
// NOT ADMITTED (solver timeout at 600 s on the unchanged tree; not registered in lib/props.py, kept for the record):
// C16 — data-flow contract on Qibla::new with recording spies for sin / cos / atan2 (no trigonometric theory needed):
// the first argument of atan2 is the value sin returned for the longitude difference to the Kaaba's meridian in radians
// (within 1e-9 rad, for EVERY longitude in [-180,180] incl. the band beyond the Kaaba's antimeridian), and the same
// angle is one of the arguments cos was evaluated at; the stored angle is to_degrees of what atan2 returned.
static mut SIN_ARG: [f64; 4] = [0.; 4];
static mut SIN_RET: [f64; 4] = [0.; 4];
static mut SIN_N: usize = 0;
static mut COS_ARG: [f64; 4] = [0.; 4];
static mut COS_N: usize = 0;
static mut AT2_Y: f64 = 0.;
static mut AT2_RET: f64 = 0.;
static mut AT2_N: usize = 0;
pub fn sin_spy(x: f64) -> f64 {
    let r = any_f64_in(-1., 1.);
    unsafe {
        if SIN_N < 4 {
            SIN_ARG[SIN_N] = x;
            SIN_RET[SIN_N] = r;
        }
        SIN_N += 1;
    }
    r
}
pub fn cos_spy(x: f64) -> f64 {
    unsafe {
        if COS_N < 4 {
            COS_ARG[COS_N] = x;
        }
        COS_N += 1;
    }
    any_f64_in(-1., 1.)
}
pub fn atan2_spy(y: f64, _x: f64) -> f64 {
    let r = any_f64_in(-core::f64::consts::PI, core::f64::consts::PI);
    unsafe {
        AT2_Y = y;
        AT2_RET = r;
        AT2_N += 1;
    }
    r
}
#[kani::proof]
#[kani::unwind(6)]
#[kani::stub(f64::sin, sin_spy)]
#[kani::stub(f64::cos, cos_spy)]
#[kani::stub(f64::atan2, atan2_spy)]
#[kani::stub(f64::tan, tan_any)]
pub fn c16_dlon_dataflow() {
    let c = any_coords();
    let lon = f64::from(c.longitude);
    crate::vcover!();
    let q = Qibla::new(c);
    let dlon = (lon - 39.823333) * (core::f64::consts::PI / 180.);
    unsafe {
        assert!(AT2_N == 1 && SIN_N <= 4 && COS_N <= 4, "C16 the bearing is one atan2 of at most four sines and cosines");
        let mut hit_sin = false;
        let mut i = 0;
        while i < 4 {
            if i < SIN_N && SIN_RET[i].to_bits() == AT2_Y.to_bits() && (SIN_ARG[i] - dlon).abs() <= 1e-9 {
                hit_sin = true;
            }
            i += 1;
        }
        assert!(hit_sin, "C16 atan2's first argument is the sine of the longitude difference to the Kaaba's meridian (radians, within 1e-9) at every longitude in [-180,180]");
        let mut hit_cos = false;
        let mut j = 0;
        while j < 4 {
            if j < COS_N && (COS_ARG[j] - dlon).abs() <= 1e-9 {
                hit_cos = true;
            }
            j += 1;
        }
        assert!(hit_cos, "C16 the cosine of the same longitude difference enters the second argument");
        assert!((q.degrees() - AT2_RET * (180. / core::f64::consts::PI)).abs() <= 1e-9, "C16 the stored angle is what atan2 returned, in degrees");
    }
}
