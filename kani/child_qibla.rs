//! C16 — contracts on geo/qibla.rs that need no trigonometric theory
use super::*;
use crate::verif_kani::{any_coords, any_f64_in};

/// rotation label agrees with the sign of the stored angle; coords() returns the argument
#[kani::proof]
pub fn c16_rotation_label() {
    let c = any_coords();
    let deg = any_f64_in(-180., 180.);
    crate::vcover!();
    let q = Qibla { coords: c, degrees: deg };
    assert!((q.rotation() == Rotation::Cw) == (deg < 0.), "C16 the rotation label is clockwise exactly for negative angles");
    assert!(q.degrees().to_bits() == deg.to_bits(), "C16 degrees() reports the stored angle");
    assert!(q.coords() == c, "C16 coords() returns the coordinates passed in");
}

#[kani::proof]
pub fn c16_constants() {
    crate::vcover!();
    assert!((Qibla::KAABA_LATITUDE - 21.4233).abs() <= 1e-4 && (Qibla::KAABA_LONGITUDE - 39.8233).abs() <= 1e-4, "C16 the Kaaba is at 21.4233 N, 39.8233 E");
}
