//! Integer specification of the tabular (arithmetic, 30-year-cycle, Friday-epoch)
//! Islamic calendar and of the proleptic Gregorian day number, written from the
//! statement of C17 (Reingold & Dershowitz, "Calendrical Calculations"), in i64.
//! Used only inside contracts; never by the code under verification.

/// floor division / floor modulus for a positive divisor
pub fn fdiv(a: i64, b: i64) -> i64 {
    a.div_euclid(b)
}
pub fn fmod(a: i64, b: i64) -> i64 {
    a.rem_euclid(b)
}

/// R.D. fixed day number of 1 Muharram 1 A.H. (Friday 16 July 622 Julian = 19 July 622 proleptic Gregorian)
pub const EPOCH: i64 = 227015;

/// fixed day number of Hijri (y, m, d)
pub fn habs(d: i64, m: i64, y: i64) -> i64 {
    d + 29 * (m - 1) + fdiv(m, 2) + 354 * (y - 1) + fdiv(3 + 11 * y, 30) + EPOCH - 1
}
/// leap years: 2,5,7,10,13,16,18,21,24,26,29 of each 30-year cycle (floor-mod also for y <= 0)
pub fn leap(y: i64) -> bool {
    fmod(11 * y + 14, 30) < 11
}
pub fn mlen(y: i64, m: i64) -> i64 {
    if m % 2 == 1 || (m == 12 && leap(y)) {
        30
    } else {
        29
    }
}
pub fn year_start(y: i64) -> i64 {
    habs(1, 1, y)
}
/// fixed day number of the proleptic Gregorian date (year, day-of-year)
pub fn rd(year: i64, ordinal: i64) -> i64 {
    let y1 = year - 1;
    ordinal + 365 * y1 + fdiv(y1, 4) - fdiv(y1, 100) + fdiv(y1, 400)
}
/// closed-form tabular conversion (independent of any search): (year, month, day)
pub fn tabular(rdn: i64) -> (i64, i64, i64) {
    let y = fdiv(30 * (rdn - EPOCH) + 10646, 10631);
    let prior = rdn - habs(1, 1, y);
    let m0 = fdiv(11 * prior + 330, 325);
    let m = if m0 > 12 { 12 } else { m0 };
    let d = rdn - habs(1, m, y) + 1;
    (y, m, d)
}
/// largest / smallest day numbers of the property's domain 0001-01-01 ..= 9999-12-31
pub const RD_MIN: i64 = 1;
pub const RD_MAX: i64 = 3652059;
