//! C12 — contracts on prayer_times/mod.rs (get_imsaak, to_prayer_time)
use super::*;
use crate::prayer_times::params::{ExtremeLatitudeMethod as E, Method};
use crate::verif_kani::{any_coords, any_f64_in, any_tad, fixed_jd};

pub static mut CALLS: u32 = 0;
pub static mut SEEN: [[u64; 3]; 2] = [[0; 3]; 2]; // per call: intervals[Fajr], minutes[Fajr], angles[Fajr]
pub static mut RET: [(bool, u64, bool); 2] = [(false, 0, false); 2];

/// get_hours_adj_ext replaced by a spy: records the parameters it is asked with, returns an arbitrary map
pub fn adj_ext_spy(params: &Params, _t: &TopAstroDay, _w: Weather) -> VMap<Prayer, Result<PrayerHour, ()>> {
    let n = unsafe { CALLS } as usize;
    let mut h = VMap::new();
    for k in [Prayer::Shurooq, Prayer::Dhuhr, Prayer::Asr, Prayer::Maghrib, Prayer::Isha] {
        h.insert(k, Ok(PrayerHour { value: 12., extreme: false }));
    }
    let f: Result<PrayerHour, ()> = if kani::any() { Ok(PrayerHour { value: any_f64_in(-24., 48.), extreme: kani::any() }) } else { Err(()) };
    h.insert(Prayer::Fajr, f);
    unsafe {
        if n < 2 {
            SEEN[n] = [params.intervals[&Prayer::Fajr].to_bits(), params.minutes[&Prayer::Fajr].to_bits(), params.angles[&Prayer::Fajr].to_bits()];
            RET[n] = match f { Ok(p) => (true, p.value.to_bits(), p.extreme), Err(()) => (false, 0, false) };
        }
        CALLS += 1;
    }
    h
}
fn eq3(a: [u64; 3], b: [u64; 3]) -> bool {
    a[0] == b[0] && a[1] == b[1] && a[2] == b[2]
}
pub static mut HTT: (u64, u64, u8) = (0, 0, 0);
/// hour_to_time replaced by a spy: records (hour, minutes[Fajr] of the params it was given, key)
pub fn hour_to_time_spy(params: &Params, prayer: Prayer, hour: f64) -> chrono::NaiveTime {
    unsafe { HTT = (hour.to_bits(), params.minutes[&Prayer::Fajr].to_bits(), prayer as u8) };
    chrono::NaiveTime::from_hms_opt(1, 2, 3).unwrap()
}

#[kani::proof]
#[kani::unwind(9)]
#[kani::stub(get_hours_adj_ext, adj_ext_spy)]
#[kani::stub(crate::prayer_times::hours::hour_to_time, hour_to_time_spy)]
pub fn c12_imsaak_branches() {
    let mut p = Params::new(Method::Mwl);
    let fi = any_f64_in(0., 180.);
    let ii = any_f64_in(0., 180.);
    let fa = any_f64_in(0., 25.);
    let ia = any_f64_in(0., 25.);
    let fm = any_f64_in(-1500., 1500.);
    p.intervals.insert(Prayer::Fajr, fi);
    p.intervals.insert(Prayer::Imsaak, ii);
    p.angles.insert(Prayer::Fajr, fa);
    p.angles.insert(Prayer::Imsaak, ia);
    p.minutes.insert(Prayer::Fajr, fm);
    let tad = any_tad(fixed_jd(), any_coords());
    crate::vcover!();
    let r = get_imsaak(&p, &tad, Weather::default());
    let calls = unsafe { CALLS };
    let s0 = unsafe { SEEN[0] };
    // first computation: exactly one field of the parameters is changed, per branch
    if fi != 0. {
        let add = if ii == 0. { 1.5 } else { ii };
        assert!(eq3(s0, [(fi + add).to_bits(), fm.to_bits(), fa.to_bits()]), "C12 interval-defined Fajr: Imsaak is computed with the Fajr interval lengthened by the Imsaak interval (1.5 by default)");
    } else if ii != 0. {
        assert!(eq3(s0, [fi.to_bits(), (fm - ii).to_bits(), fa.to_bits()]), "C12 Imsaak interval: Imsaak is Fajr with its minute offset reduced by the interval");
    } else {
        assert!(eq3(s0, [fi.to_bits(), fm.to_bits(), (fa + ia).to_bits()]), "C03/C12 Imsaak is Fajr computed with the Imsaak angle added to the Fajr angle");
    }
    let (ok0, v0, ext0) = unsafe { RET[0] };
    if ok0 && ext0 {
        // extreme Fajr: recomputed 1.5 min (or the Imsaak interval) before it, from the ORIGINAL parameters
        let sub = if ii == 0. { 1.5 } else { ii };
        assert!(calls == 2, "C12 an extreme Fajr triggers exactly one recomputation");
        let s1 = unsafe { SEEN[1] };
        assert!(eq3(s1, [fi.to_bits(), (fm - sub).to_bits(), fa.to_bits()]), "C12 extreme Fajr: Imsaak is that Fajr minus 1.5 min (or the Imsaak interval), all other parameters original");
        let (ok1, v1, ext1) = unsafe { RET[1] };
        match r {
            Ok(pt) => {
                assert!(ok1 && pt.extreme == ext1, "C12 Imsaak carries the extreme flag of the Fajr it was derived from");
                assert!(unsafe { HTT.0 == v1 && HTT.1 == (fm - sub).to_bits() && HTT.2 == Prayer::Fajr as u8 }, "C11/C12 Imsaak is rendered with the Fajr key and the adjusted offset");
            }
            Err(()) => assert!(!ok1, "C12 Imsaak is invalid only if the derived Fajr is"),
        }
    } else {
        assert!(calls == 1, "C12 no recomputation unless Fajr is extreme");
        match r {
            Ok(pt) => {
                assert!(ok0 && pt.extreme == ext0, "C12 Imsaak carries the extreme flag of the Fajr it was derived from");
                assert!(unsafe { HTT.0 } == v0 && unsafe { HTT.2 } == Prayer::Fajr as u8, "C11/C12 Imsaak is rendered with the Fajr key");
            }
            Err(()) => assert!(!ok0, "C12 Imsaak is invalid only if the derived Fajr is"),
        }
    }
}

/// to_prayer_time copies the extreme flag and renders the hour with the given key
#[kani::proof]
#[kani::unwind(9)]
#[kani::stub(crate::prayer_times::hours::hour_to_time, hour_to_time_spy)]
pub fn c11_to_prayer_time() {
    let p = Params::new(Method::Mwl);
    let key = crate::verif_kani::any_prayer6();
    let ph = PrayerHour { value: any_f64_in(-48., 72.), extreme: kani::any() };
    crate::vcover!();
    let t = to_prayer_time(&p, key, ph);
    assert!(t.extreme == ph.extreme, "C11 rounding/rendering leaves the extreme flag unaffected");
    assert!(unsafe { HTT.0 } == ph.value.to_bits() && unsafe { HTT.2 } == key as u8, "C11 the hour is rendered under its own key");
}

// =====================================================================================
// NOT ADMITTED (BTreeMap construction does not finish under CBMC in 30 min; not registered, kept for the record):
// C05 / C12 / C20 — wiring of prayer_times_dt: what reaches which stage, and the 7-entry result
pub static mut W_JD_GMT: u64 = 0;
pub static mut W_JD_RET: u64 = 0;
pub static mut W_FROM_JD: (u64, u64, u64, u64) = (0, 0, 0, 0);
pub static mut W_WEATHER: [(u64, u64); 2] = [(0, 0); 2];
pub static mut W_N: usize = 0;

pub fn jd_new_spy(date: chrono::NaiveDate, gmt: crate::geo::coordinates::Gmt) -> JulianDay {
    let v = any_f64_in(2.3e6, 2.6e6);
    unsafe {
        W_JD_GMT = f64::from(gmt).to_bits();
        W_JD_RET = v.to_bits();
    }
    JulianDay { date, gmt, value: v }
}
pub fn from_jd_spy(jd: JulianDay, coords: crate::geo::coordinates::Coordinates) -> TopAstroDay {
    unsafe {
        W_FROM_JD = (jd.value.to_bits(), f64::from(coords.latitude).to_bits(), f64::from(coords.longitude).to_bits(), f64::from(coords.elevation).to_bits());
    }
    any_tad(jd, coords)
}
fn rec_weather(w: Weather) {
    unsafe {
        if W_N < 2 {
            W_WEATHER[W_N] = (f64::from(w.pressure).to_bits(), f64::from(w.temperature).to_bits());
        }
        W_N += 1;
    }
}
pub fn adj_ext_wiring_spy(_p: &Params, _t: &TopAstroDay, w: Weather) -> VMap<Prayer, Result<PrayerHour, ()>> {
    rec_weather(w);
    // concrete map (keeps the BTreeMap construction of prayer_times_dt concrete for CBMC): Asr invalid, Isha flagged
    let mut h = VMap::new();
    h.insert(Prayer::Fajr, Ok(PrayerHour { value: 5., extreme: false }));
    h.insert(Prayer::Shurooq, Ok(PrayerHour { value: 6., extreme: false }));
    h.insert(Prayer::Dhuhr, Ok(PrayerHour { value: 12., extreme: false }));
    h.insert(Prayer::Asr, Err(()));
    h.insert(Prayer::Maghrib, Ok(PrayerHour { value: 18., extreme: false }));
    h.insert(Prayer::Isha, Ok(PrayerHour { value: 19., extreme: true }));
    h
}
pub static mut W_IMSAAK: (bool, bool) = (false, false);
pub fn imsaak_wiring_spy(_p: &Params, _t: &TopAstroDay, w: Weather) -> Result<PrayerTime, ()> {
    rec_weather(w);
    let ok: bool = kani::any();
    let ext: bool = kani::any();
    unsafe { W_IMSAAK = (ok, ext) };
    if ok { Ok(PrayerTime { time: chrono::NaiveTime::from_hms_opt(4, 5, 6).unwrap(), extreme: ext }) } else { Err(()) }
}

#[kani::proof]
#[kani::unwind(9)]
#[kani::stub(crate::geo::julian_day::JulianDay::new, jd_new_spy)]
#[kani::stub(crate::geo::astro::TopAstroDay::from_jd, from_jd_spy)]
#[kani::stub(get_hours_adj_ext, adj_ext_wiring_spy)]
#[kani::stub(get_imsaak, imsaak_wiring_spy)]
#[kani::stub(crate::prayer_times::hours::hour_to_time, hour_to_time_spy)]
pub fn c20_dt_wiring() {
    let p = Params::new(Method::Mwl);
    let coords = any_coords();
    let g = any_f64_in(-12., 12.);
    let location = crate::geo::coordinates::Location { coords, gmt: crate::geo::coordinates::Gmt::try_from(g).unwrap() };
    let date = chrono::NaiveDate::from_yo_opt(2023, 100).unwrap();
    let with_weather: bool = kani::any();
    let pw = any_f64_in(100., 1050.);
    let tw = any_f64_in(-90., 57.);
    let weather = if with_weather {
        Some(Weather { pressure: crate::geo::weather::Pressure::try_from(pw).unwrap(), temperature: crate::geo::weather::Temperature::try_from(tw).unwrap() })
    } else {
        None
    };
    crate::vcover!();
    let out = prayer_times_dt(&p, location, date, weather);
    unsafe {
        assert!(W_JD_GMT == g.to_bits(), "C20 the GMT offset is handed to the Julian Day of local midnight");
        assert!(W_FROM_JD.0 == W_JD_RET, "C20 the ephemeris is evaluated at that Julian Day");
        assert!(W_FROM_JD.1 == f64::from(coords.latitude).to_bits() && W_FROM_JD.2 == f64::from(coords.longitude).to_bits()
            && W_FROM_JD.3 == f64::from(coords.elevation).to_bits(), "C20 the location's coordinates reach the topocentric stage unchanged");
        let d = Weather::default();
        let want = if with_weather { (pw.to_bits(), tw.to_bits()) } else { (f64::from(d.pressure).to_bits(), f64::from(d.temperature).to_bits()) };
        assert!(W_N == 2 && W_WEATHER[0] == want && W_WEATHER[1] == want, "C12 absent weather is the default weather, for the six hours and for Imsaak alike");
    }
    assert!(out.len() == 7, "C05 every call returns exactly seven entries");
    assert!(out.contains_key(&Prayer::Imsaak) && out.contains_key(&Prayer::Fajr) && out.contains_key(&Prayer::Isha), "C05 Imsaak, Fajr ... Isha are all present");
    // the Imsaak entry is exactly what get_imsaak produced (not re-derived from the other entries)
    let (iok, iext) = unsafe { W_IMSAAK };
    match out[&Prayer::Imsaak] {
        Ok(pt) => assert!(iok && pt.extreme == iext && pt.time == chrono::NaiveTime::from_hms_opt(4, 5, 6).unwrap(), "C03/C12 the Imsaak entry is the one computed by the Imsaak stage"),
        Err(()) => assert!(!iok, "C03/C12 the Imsaak entry is the one computed by the Imsaak stage"),
    }
    // validity and flags of the six hours are carried over
    assert!(out[&Prayer::Asr].is_err() && matches!(out[&Prayer::Isha], Ok(pt) if pt.extreme) && matches!(out[&Prayer::Fajr], Ok(pt) if !pt.extreme), "C11 validity and the extreme flag are unaffected by rendering");
}

// =====================================================================================
// NOT ADMITTED (two-run equivalence did not close in 25 min; not registered, kept for the record):
// C12 — hour_to_time consults the offset map only at the prayer's own key
#[kani::proof]
#[kani::unwind(8)]
pub fn c12_offset_own_key_only() {
    let prayer = crate::verif_kani::any_prayer6();
    let hour = any_f64_in(-24., 48.);
    let off = any_f64_in(-90., 90.);
    let mut p1 = Params::new(Method::Mwl);
    p1.round_seconds = match kani::any::<u8>() % 4 { 0 => RoundSeconds::None, 1 => RoundSeconds::NormalRounding, 2 => RoundSeconds::SpecialRounding, _ => RoundSeconds::AggressiveRounding };
    p1.minutes.insert(prayer, off);
    let mut p2 = p1.clone();
    for k in [Prayer::Imsaak, Prayer::Fajr, Prayer::Shurooq, Prayer::Dhuhr, Prayer::Asr, Prayer::Maghrib, Prayer::Isha] {
        if k != prayer {
            p2.minutes.insert(k, any_f64_in(-90., 90.));
        }
    }
    crate::vcover!();
    let a = crate::prayer_times::hours::hour_to_time(&p1, prayer, hour);
    let b = crate::prayer_times::hours::hour_to_time(&p2, prayer, hour);
    assert!(a == b, "C12 a minute offset on another key never moves this prayer");
}

// =====================================================================================
// NOT ADMITTED (same reason; not registered, kept for the record):
// C14 — the range API is the single-date API applied to exactly the dates of the range.
// BOUNDED (labelled): spans of -2..=3 days; the single-date API is replaced by a spy.
pub static mut DT_DATES: [i32; 4] = [0; 4];
pub static mut DT_N: usize = 0;
pub fn dt_spy(_p: &Params, _l: Location, date: NaiveDate, w: Option<Weather>) -> BTreeMap<Prayer, Result<PrayerTime, ()>> {
    unsafe {
        if DT_N < 4 {
            DT_DATES[DT_N] = chrono::Datelike::num_days_from_ce(&date);
        }
        DT_N += 1;
    }
    assert!(w.is_none(), "C14 the range API passes no weather");
    BTreeMap::new()
}
#[kani::proof]
#[kani::unwind(6)]
#[kani::stub(prayer_times_dt, dt_spy)]
pub fn c14_rng_calls_dt() {
    let p = Params::new(Method::Mwl);
    let location = Location { coords: any_coords(), gmt: crate::geo::coordinates::Gmt::try_from(0.).unwrap() };
    // starts chosen on a year end, a leap day and the Gregorian switch of the Julian-Day formula
    let start = match kani::any::<u8>() % 3 {
        0 => NaiveDate::from_ymd_opt(2023, 12, 30).unwrap(),
        1 => NaiveDate::from_ymd_opt(2024, 2, 28).unwrap(),
        _ => NaiveDate::from_ymd_opt(1582, 10, 14).unwrap(),
    };
    let span: i64 = kani::any();
    kani::assume(span >= -2 && span <= 3);
    let end = start + chrono::Duration::days(span - 1);
    crate::vcover!();
    let r = prayer_times_dt_rng(&p, location, &DateRange::from(start..=end));
    let n = if span > 0 { span as usize } else { 0 };
    assert!(unsafe { DT_N } == n, "C14 the single-date computation runs exactly once per date of the range, never when the end precedes the start");
    assert!(r.len() == n, "C14 one entry per calendar date");
    let s0 = chrono::Datelike::num_days_from_ce(&start);
    let mut i = 0;
    while i < n {
        assert!(unsafe { DT_DATES[i] } == s0 + i as i32, "C14 the i-th entry is the single-date result for start + i days");
        i += 1;
    }
}
