//! C12 — contracts on prayer_times/mod.rs (get_imsaak, to_prayer_time)
use super::*;
use crate::prayer_times::params::{ExtremeLatitudeMethod as E, Method};
use crate::verif_kani::{any_coords, any_f64_in, any_tad, fixed_jd};

pub static mut CALLS: u32 = 0;
pub static mut SEEN: [[u64; 3]; 2] = [[0; 3]; 2]; // per call: intervals[Fajr], minutes[Fajr], angles[Fajr]
pub static mut RET: [(bool, u64, bool); 2] = [(false, 0, false); 2];

/// get_hours_adj_ext replaced by a spy: records the parameters it is asked with, returns an arbitrary map
pub fn adj_ext_spy(params: &Params, _t: &TopAstroDay, _w: Weather) -> VMap<Prayer, Result<PrayerHour, ()>> {
    let n = unsafe { CALLS } as usize;
    let mut h = VMap::new();
    for k in [Prayer::Shurooq, Prayer::Dhuhr, Prayer::Asr, Prayer::Maghrib, Prayer::Isha] {
        h.insert(k, Ok(PrayerHour { value: 12., extreme: false }));
    }
    let f: Result<PrayerHour, ()> = if kani::any() { Ok(PrayerHour { value: any_f64_in(-24., 48.), extreme: kani::any() }) } else { Err(()) };
    h.insert(Prayer::Fajr, f);
    unsafe {
        if n < 2 {
            SEEN[n] = [params.intervals[&Prayer::Fajr].to_bits(), params.minutes[&Prayer::Fajr].to_bits(), params.angles[&Prayer::Fajr].to_bits()];
            RET[n] = match f { Ok(p) => (true, p.value.to_bits(), p.extreme), Err(()) => (false, 0, false) };
        }
        CALLS += 1;
    }
    h
}
fn eq3(a: [u64; 3], b: [u64; 3]) -> bool {
    a[0] == b[0] && a[1] == b[1] && a[2] == b[2]
}
pub static mut HTT: (u64, u64, u8) = (0, 0, 0);
/// hour_to_time replaced by a spy: records (hour, minutes[Fajr] of the params it was given, key)
pub fn hour_to_time_spy(params: &Params, prayer: Prayer, hour: f64) -> chrono::NaiveTime {
    unsafe { HTT = (hour.to_bits(), params.minutes[&Prayer::Fajr].to_bits(), prayer as u8) };
    chrono::NaiveTime::from_hms_opt(1, 2, 3).unwrap()
}

#[kani::proof]
#[kani::unwind(9)]
#[kani::stub(get_hours_adj_ext, adj_ext_spy)]
#[kani::stub(crate::prayer_times::hours::hour_to_time, hour_to_time_spy)]
pub fn c12_imsaak_branches() {
    let mut p = Params::new(Method::Mwl);
    let fi = any_f64_in(0., 180.);
    let ii = any_f64_in(0., 180.);
    let fa = any_f64_in(0., 25.);
    let ia = any_f64_in(0., 25.);
    let fm = any_f64_in(-1500., 1500.);
    p.intervals.insert(Prayer::Fajr, fi);
    p.intervals.insert(Prayer::Imsaak, ii);
    p.angles.insert(Prayer::Fajr, fa);
    p.angles.insert(Prayer::Imsaak, ia);
    p.minutes.insert(Prayer::Fajr, fm);
    let tad = any_tad(fixed_jd(), any_coords());
    crate::vcover!();
    let r = get_imsaak(&p, &tad, Weather::default());
    let calls = unsafe { CALLS };
    let s0 = unsafe { SEEN[0] };
    // first computation: exactly one field of the parameters is changed, per branch
    if fi != 0. {
        let add = if ii == 0. { 1.5 } else { ii };
        assert!(eq3(s0, [(fi + add).to_bits(), fm.to_bits(), fa.to_bits()]), "C12 interval-defined Fajr: Imsaak is computed with the Fajr interval lengthened by the Imsaak interval (1.5 by default)");
    } else if ii != 0. {
        assert!(eq3(s0, [fi.to_bits(), (fm - ii).to_bits(), fa.to_bits()]), "C12 Imsaak interval: Imsaak is Fajr with its minute offset reduced by the interval");
    } else {
        assert!(eq3(s0, [fi.to_bits(), fm.to_bits(), (fa + ia).to_bits()]), "C03/C12 Imsaak is Fajr computed with the Imsaak angle added to the Fajr angle");
    }
    let (ok0, v0, ext0) = unsafe { RET[0] };
    if ok0 && ext0 {
        // extreme Fajr: recomputed 1.5 min (or the Imsaak interval) before it, from the ORIGINAL parameters
        let sub = if ii == 0. { 1.5 } else { ii };
        assert!(calls == 2, "C12 an extreme Fajr triggers exactly one recomputation");
        let s1 = unsafe { SEEN[1] };
        assert!(eq3(s1, [fi.to_bits(), (fm - sub).to_bits(), fa.to_bits()]), "C12 extreme Fajr: Imsaak is that Fajr minus 1.5 min (or the Imsaak interval), all other parameters original");
        let (ok1, v1, ext1) = unsafe { RET[1] };
        match r {
            Ok(pt) => {
                assert!(ok1 && pt.extreme == ext1, "C12 Imsaak carries the extreme flag of the Fajr it was derived from");
                assert!(unsafe { HTT.0 == v1 && HTT.1 == (fm - sub).to_bits() && HTT.2 == Prayer::Fajr as u8 }, "C11/C12 Imsaak is rendered with the Fajr key and the adjusted offset");
            }
            Err(()) => assert!(!ok1, "C12 Imsaak is invalid only if the derived Fajr is"),
        }
    } else {
        assert!(calls == 1, "C12 no recomputation unless Fajr is extreme");
        match r {
            Ok(pt) => {
                assert!(ok0 && pt.extreme == ext0, "C12 Imsaak carries the extreme flag of the Fajr it was derived from");
                assert!(unsafe { HTT.0 } == v0 && unsafe { HTT.2 } == Prayer::Fajr as u8, "C11/C12 Imsaak is rendered with the Fajr key");
            }
            Err(()) => assert!(!ok0, "C12 Imsaak is invalid only if the derived Fajr is"),
        }
    }
}

/// to_prayer_time copies the extreme flag and renders the hour with the given key
#[kani::proof]
#[kani::unwind(9)]
#[kani::stub(crate::prayer_times::hours::hour_to_time, hour_to_time_spy)]
pub fn c11_to_prayer_time() {
    let p = Params::new(Method::Mwl);
    let key = crate::verif_kani::any_prayer6();
    let ph = PrayerHour { value: any_f64_in(-48., 72.), extreme: kani::any() };
    crate::vcover!();
    let t = to_prayer_time(&p, key, ph);
    assert!(t.extreme == ph.extreme, "C11 rounding/rendering leaves the extreme flag unaffected");
    assert!(unsafe { HTT.0 } == ph.value.to_bits() && unsafe { HTT.2 } == key as u8, "C11 the hour is rendered under its own key");
}
