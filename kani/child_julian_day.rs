//! C13 / C20 / C09 — contracts on geo/julian_day.rs
use super::*;
use crate::verif_kani::any_f64_in;

/// Fliegel / Van Flandern Julian Day Number (integer arithmetic), from the statement of C13
fn jdn(y: i64, m: i64, d: i64) -> i64 {
    let a = (14 - m) / 12;
    let yy = y + 4800 - a;
    let mm = m + 12 * a - 3;
    d + (153 * mm + 2) / 5 + 365 * yy + yy / 4 - yy / 100 + yy / 400 - 32045
}

/// JulianDay::new(date, 0).value == JDN(date) - 0.5 EXACTLY (all terms are integers or .5, so every
/// partial sum is exact): consecutive dates differ by exactly 1.0 across month, year and leap boundaries.
macro_rules! jd_month {
    ($name:ident, $m:expr) => {
        #[kani::proof]
        pub fn $name() {
            let y: i32 = kani::any();
            let d: u32 = kani::any();
            kani::assume(y >= 1583 && y <= 9999 && d >= 1 && d <= 31);
            let date = chrono::NaiveDate::from_ymd_opt(y, $m, d);
            kani::assume(date.is_some());
            crate::vcover!();
            let jd = JulianDay::new(date.unwrap(), Gmt::try_from(0.).unwrap());
            let want = jdn(y as i64, $m as i64, d as i64) as f64 - 0.5;
            assert!(jd.value.to_bits() == want.to_bits(), "C13 Julian Day of local midnight equals the integer day number minus 0.5, exactly");
            assert!(jd.date == date.unwrap(), "C13 JulianDay keeps the civil date");
        }
    };
}
jd_month!(c13_jd_m01, 1);
jd_month!(c13_jd_m02, 2);
jd_month!(c13_jd_m03, 3);
jd_month!(c13_jd_m04, 4);
jd_month!(c13_jd_m05, 5);
jd_month!(c13_jd_m06, 6);
jd_month!(c13_jd_m07, 7);
jd_month!(c13_jd_m08, 8);
jd_month!(c13_jd_m09, 9);
jd_month!(c13_jd_m10, 10);
jd_month!(c13_jd_m11, 11);
jd_month!(c13_jd_m12, 12);

/// the GMT offset enters only as -gmt/24 (checked on pinned dates: the integer terms are then constants)
#[kani::proof]
pub fn c20_jd_gmt() {
    let g = any_f64_in(-12., 12.);
    let which: bool = kani::any();
    let (y, m, d) = if which { (2024, 2, 29) } else { (1600, 12, 31) };
    crate::vcover!();
    let date = chrono::NaiveDate::from_ymd_opt(y, m, d).unwrap();
    let jd = JulianDay::new(date, Gmt::try_from(g).unwrap());
    let want = jdn(y as i64, m as i64, d as i64) as f64 - 0.5 - g / 24.;
    assert!((jd.value - want).abs() <= 1e-9, "C20 the GMT offset shifts the Julian Day of local midnight by exactly -gmt/24");
    assert!(f64::from(jd.gmt).to_bits() == g.to_bits(), "C20 JulianDay keeps the GMT offset");
}

/// stepping: sub/add(n) move the date by n days, the value by n, and keep the offset (C09's search steps)
macro_rules! jd_step {
    ($name:ident, $ylo:expr, $yhi:expr) => {
#[kani::proof]
pub fn $name() {
    let y: i32 = kani::any();
    let o: u32 = kani::any();
    let n: u64 = kani::any();
    kani::assume(y >= $ylo && y <= $yhi && o >= 1 && o <= 366 && n <= 366);
    let date = chrono::NaiveDate::from_yo_opt(y, o);
    kani::assume(date.is_some());
    let v = any_f64_in(2305000., 2600000.);
    crate::vcover!();
    let jd = JulianDay { date: date.unwrap(), gmt: Gmt::try_from(0.).unwrap(), value: v };
    let s = jd.sub(n);
    let a = jd.add(n);
    assert!(s.value == v - n as f64 && a.value == v + n as f64, "C09 stepping moves the Julian Day value by n");
    assert!(a.date.signed_duration_since(jd.date).num_days() == n as i64, "C09 add(n) moves the civil date n days forward");
    assert!(jd.date.signed_duration_since(s.date).num_days() == n as i64, "C09 sub(n) moves the civil date n days back");
    assert!(s.gmt == jd.gmt && a.gmt == jd.gmt, "C09 stepping keeps the GMT offset");
}
    };
}
jd_step!(c09_jd_step, 1600, 2399);
jd_step!(c09_jd_step_q, 2019, 2025);
