//! C01 bounded stand-in for the angle normalisation helpers (congruence clause not admitted as a proof obligation)
use super::{util::Rng, Args, Report};
use crate::angle::LimitAngle;
use serde_json::json;

pub fn angles(a: &Args) -> Report {
    let n = if a.thorough { 20_000_000 } else { 2_000_000 };
    let mut rep = Report::new("c01_angles", &format!("{} seeded arguments: uniform in +-6e7, +-1e3, near multiples of 360 (+-1 ulp), exact multiples", n));
    let mut rng = Rng::new(a.seed ^ 0xA61E);
    let cong = |x: f64, r: f64, m: f64| {
        let k = (x - r) / m;
        (k - k.round()).abs() <= 1e-6
    };
    for i in 0..n {
        let x = match i % 5 {
            0 => rng.range(-6e7, 6e7),
            1 => rng.range(-1e3, 1e3),
            2 => 360. * (rng.below(300_000) as f64 - 150_000.),
            3 => {
                let b = 360. * (rng.below(300_000) as f64 - 150_000.);
                f64::from_bits(b.to_bits().wrapping_add(rng.below(5)).wrapping_sub(2))
            }
            _ => rng.range(-1e-9, 1e-9),
        };
        if !x.is_finite() {
            continue;
        }
        rep.evaluations += 1;
        let r360 = x.cap_angle_360();
        let rb = x.cap_angle_between_180();
        let r1 = (x / 360.).cap_angle_1();
        if !(r360 >= 0. && r360 <= 360. && cong(x, r360, 360.)) {
            rep.fail(json!({"key": "c01-cap360", "x": x, "got": r360}));
        }
        if !(rb >= -180. && rb <= 180. && cong(x, rb, 360.)) {
            rep.fail(json!({"key": "c01-capb180", "x": x, "got": rb}));
        }
        if !(r1 >= 0. && r1 <= 1. && cong(x / 360., r1, 1.)) {
            rep.fail(json!({"key": "c01-cap1", "x": x / 360., "got": r1}));
        }
        if i % 5 >= 2 {
            rep.distinct_nontrivial += 1;
        }
    }
    rep.sample(json!({"x": -723.2, "cap_angle_360": 356.8}));
    rep
}
