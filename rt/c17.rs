//! C17 exhaustive native sweep: every date 0001-01-01 ..= 9999-12-31 through the real
//! HijriDate::from, against the closed-form tabular conversion (Reingold & Dershowitz),
//! written independently in integer arithmetic. Exhaustive over the property's domain.
use super::{Args, Report};
use crate::hijri_date::HijriDate;
use chrono::{Datelike, NaiveDate};
use serde_json::json;

fn fdiv(a: i64, b: i64) -> i64 {
    a.div_euclid(b)
}
const EPOCH: i64 = 227015;
fn leap(y: i64) -> bool {
    (11 * y + 14).rem_euclid(30) < 11
}
fn ystart(y: i64) -> i64 {
    EPOCH + 354 * (y - 1) + fdiv(3 + 11 * y, 30)
}
fn mlen(y: i64, m: i64) -> i64 {
    if m % 2 == 1 || (m == 12 && leap(y)) {
        30
    } else {
        29
    }
}
/// closed form: (year, month, day)
pub fn tabular(rd: i64) -> (i64, i64, i64) {
    let y = fdiv(30 * (rd - EPOCH) + 10646, 10631);
    let prior = rd - ystart(y);
    let mut m = 1;
    let mut acc = 0;
    while m < 12 && prior >= acc + mlen(y, m) {
        acc += mlen(y, m);
        m += 1;
    }
    (y, m, prior - acc + 1)
}
fn rd_of(date: NaiveDate) -> i64 {
    // chrono: days since 0001-01-01 (CE day 1)
    date.num_days_from_ce() as i64
}

pub fn sweep(a: &Args) -> Report {
    let mut rep = Report::new("c17_sweep", "exhaustive: every date 0001-01-01..=9999-12-31 (3,652,059 dates)");
    let mut d = NaiveDate::from_ymd_opt(1, 1, 1).unwrap();
    let end = NaiveDate::from_ymd_opt(9999, 12, 31).unwrap();
    let mut prev: Option<(i64, i64, i64)> = None;
    let display_stride = if a.thorough { 1 } else { 7 };
    let mut n: u64 = 0;
    loop {
        let rd = rd_of(d);
        let (ey, em, ed) = tabular(rd);
        let dd = d;
        let got = std::panic::catch_unwind(move || {
            let h = HijriDate::from(dd);
            let m = h.month() as u8; // unwrap inside: must not panic
            let w = h.day_of_week() as u8;
            (h.year(), m, h.day(), h.pre_epoch(), w, h.date())
        });
        rep.evaluations += 1;
        match got {
            Err(_) => rep.fail(json!({"date": d.to_string(), "why": "panic in conversion or accessor", "expected": [ey, em, ed]})),
            Ok((y, m, day, pre, w, date)) => {
                let hy = if pre { 1 - y as i64 } else { y as i64 };
                let exp_w = d.weekday().num_days_from_sunday() as u8 + 1;
                if hy != ey || m as i64 != em || day as i64 != ed || pre != (ey <= 0) || (y as i64) < 1 {
                    rep.fail(json!({"date": d.to_string(), "got": {"year": y, "pre_epoch": pre, "month": m, "day": day}, "expected": {"year": if ey <= 0 {1 - ey} else {ey}, "pre_epoch": ey <= 0, "month": em, "day": ed}}));
                } else if w != exp_w {
                    rep.fail(json!({"date": d.to_string(), "why": "weekday", "got": w, "expected": exp_w}));
                } else if date != d {
                    rep.fail(json!({"date": d.to_string(), "why": "date() differs"}));
                }
                // successor / month length consequences, on the library's own output
                if let Some((py, pm, pd)) = prev {
                    let ok = (hy == py && m as i64 == pm && day as i64 == pd + 1)
                        || (hy == py && m as i64 == pm + 1 && day == 1 && pd == mlen(py, pm))
                        || (hy == py + 1 && m == 1 && pm == 12 && day == 1 && pd == mlen(py, 12));
                    if !ok {
                        rep.fail(json!({"date": d.to_string(), "why": "not the successor of the previous day's Hijri date", "prev": [py, pm, pd], "got": [hy, m, day]}));
                    }
                }
                prev = Some((hy, m as i64, day as i64));
                if n % display_stride == 0 {
                    let s = std::panic::catch_unwind(move || HijriDate::from(dd).to_string());
                    match s {
                        Err(_) => rep.fail(json!({"date": d.to_string(), "why": "panic in Display"})),
                        Ok(s) => {
                            if !(s.ends_with(if pre { "B.H." } else { "A.H." })) {
                                rep.fail(json!({"date": d.to_string(), "why": "Display era suffix", "text": s}));
                            }
                        }
                    }
                }
            }
        }
        if n % 500_000 == 0 {
            rep.sample(json!({"date": d.to_string(), "tabular": [ey, em, ed]}));
        }
        n += 1;
        if d == end {
            break;
        }
        d = d.succ_opt().unwrap();
    }
    rep.distinct_nontrivial = rep.evaluations;
    rep
}
