//! rtcheck accessors for private functions of prayer_times/hours.rs (cfg(ipt_verif_rt) only)
use super::*;

pub(crate) fn x_hour_to_time(params: &Params, prayer: Prayer, hour: f64) -> chrono::NaiveTime {
    hour_to_time(params, prayer, hour)
}
pub(crate) fn x_get_ra_interp_deltas(t: &TopAstroDay) -> (f64, f64) {
    get_ra_interp_deltas(t)
}
pub(crate) fn x_get_hours(params: &Params, t: &TopAstroDay, w: Weather) -> std::collections::HashMap<Prayer, Result<f64, ()>> {
    get_hours(params, t, w)
}
