//! rtcheck accessor for the private hour_to_time (cfg(ipt_verif_rt) only)
use super::*;

pub(crate) fn x_hour_to_time(params: &Params, prayer: Prayer, hour: f64) -> chrono::NaiveTime {
    hour_to_time(params, prayer, hour)
}
