//! rtcheck: native contract replay / bounded stand-in runner. Compiled only under
//! --cfg ipt_verif_rt into a scratch copy of the repository (never into /repo).
//! It calls the REAL functions (real HashMap, real libm) and evaluates the contract
//! closures. Everything it reports is labelled *bounded* and never counted as proved.
use serde_json::{json, Value};

pub mod util;
pub mod c18;
pub mod c17;
pub mod c14;
pub mod c11;
pub mod refastro;
pub mod e2e;
pub mod e2e2;
pub mod angles;

pub struct Report {
    pub name: String,
    pub evaluations: u64,
    pub distinct_nontrivial: u64,
    pub failures: Vec<Value>,
    pub samples: Vec<Value>,
    pub bound: String,
}

impl Report {
    pub fn new(name: &str, bound: &str) -> Self {
        Report { name: name.into(), evaluations: 0, distinct_nontrivial: 0, failures: vec![], samples: vec![], bound: bound.into() }
    }
    pub fn fail(&mut self, v: Value) {
        if self.failures.len() < 50 {
            self.failures.push(v);
        }
    }
    pub fn sample(&mut self, v: Value) {
        if self.samples.len() < 5 {
            self.samples.push(v);
        }
    }
    pub fn emit(&self) {
        println!(
            "RTJSON {}",
            json!({"name": self.name, "evaluations": self.evaluations, "distinct_nontrivial": self.distinct_nontrivial,
                   "failures": self.failures, "samples": self.samples, "bound": self.bound})
        );
    }
}

pub struct Args {
    pub name: String,
    pub seed: u64,
    pub thorough: bool,
    pub rest: Vec<String>,
}

pub fn main() {
    // panics inside the library are caught (catch_unwind) and reported as failures; keep stderr quiet
    std::panic::set_hook(Box::new(|_| {}));
    let a: Vec<String> = std::env::args().collect();
    if a.len() < 2 {
        eprintln!("usage: rtcheck <check> [--seed n] [--tier quick|thorough] [...]");
        std::process::exit(2);
    }
    let mut args = Args { name: a[1].clone(), seed: 0, thorough: false, rest: vec![] };
    let mut i = 2;
    while i < a.len() {
        match a[i].as_str() {
            "--seed" => {
                args.seed = a[i + 1].parse().unwrap_or(0);
                i += 1;
            }
            "--tier" => {
                args.thorough = a[i + 1] == "thorough";
                i += 1;
            }
            x => args.rest.push(x.to_string()),
        }
        i += 1;
    }
    let rep = match args.name.as_str() {
        "c18_corpus" => c18::corpus(&args),
        "c17_sweep" => c17::sweep(&args),
        "c14_ranges" => c14::ranges(&args),
        "c11_seconds" => c11::seconds(&args),
        "c01_dhuhr" => e2e::c01_dhuhr(&args),
        "c02_sunrise" => e2e::c02_sunrise(&args),
        "c03_twilight" => e2e::c03_twilight(&args),
        "c04_asr" => e2e::c04_asr(&args),
        "c05_order" => e2e::c05_order(&args),
        "c06_validity" => e2e::c06_validity(&args),
        "c13_smooth" => e2e::c13_smooth(&args),
        "c20_zones" => e2e::c20_zones(&args),
        "c16_qibla" => e2e::c16_qibla(&args),
        "c09_neargood" => e2e::c09_neargood(&args),
        "c01_angles" => angles::angles(&args),
        "c07_e2e" => e2e2::c07_e2e(&args),
        "c08_e2e" => e2e2::c08_e2e(&args),
        "c10_formulas" => e2e2::c10_formulas(&args),
        "c12_params" => e2e2::c12_params(&args),
        other => {
            eprintln!("unknown check {}", other);
            std::process::exit(2);
        }
    };
    rep.emit();
}
