//! rtcheck: native contract replay / bounded stand-in runner. Compiled only under
//! --cfg ipt_verif_rt into a scratch copy of the repository (never into /repo).
//! It calls the REAL functions (real HashMap, real libm) and evaluates the contract
//! closures. Everything it reports is labelled *bounded* and never counted as proved.
use serde_json::{json, Value};

pub mod util;
pub mod c18;
pub mod c17;

pub struct Report {
    pub name: String,
    pub evaluations: u64,
    pub distinct_nontrivial: u64,
    pub failures: Vec<Value>,
    pub samples: Vec<Value>,
    pub bound: String,
}

impl Report {
    pub fn new(name: &str, bound: &str) -> Self {
        Report { name: name.into(), evaluations: 0, distinct_nontrivial: 0, failures: vec![], samples: vec![], bound: bound.into() }
    }
    pub fn fail(&mut self, v: Value) {
        if self.failures.len() < 50 {
            self.failures.push(v);
        }
    }
    pub fn sample(&mut self, v: Value) {
        if self.samples.len() < 5 {
            self.samples.push(v);
        }
    }
    pub fn emit(&self) {
        println!(
            "RTJSON {}",
            json!({"name": self.name, "evaluations": self.evaluations, "distinct_nontrivial": self.distinct_nontrivial,
                   "failures": self.failures, "samples": self.samples, "bound": self.bound})
        );
    }
}

pub struct Args {
    pub name: String,
    pub seed: u64,
    pub thorough: bool,
    pub rest: Vec<String>,
}

pub fn main() {
    let a: Vec<String> = std::env::args().collect();
    if a.len() < 2 {
        eprintln!("usage: rtcheck <check> [--seed n] [--tier quick|thorough] [...]");
        std::process::exit(2);
    }
    let mut args = Args { name: a[1].clone(), seed: 0, thorough: false, rest: vec![] };
    let mut i = 2;
    while i < a.len() {
        match a[i].as_str() {
            "--seed" => {
                args.seed = a[i + 1].parse().unwrap_or(0);
                i += 1;
            }
            "--tier" => {
                args.thorough = a[i + 1] == "thorough";
                i += 1;
            }
            x => args.rest.push(x.to_string()),
        }
        i += 1;
    }
    let rep = match args.name.as_str() {
        "c18_corpus" => c18::corpus(&args),
        "c17_sweep" => c17::sweep(&args),
        other => {
            eprintln!("unknown check {}", other);
            std::process::exit(2);
        }
    };
    rep.emit();
}
