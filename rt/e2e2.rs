//! End-to-end bounded stand-ins for the policy / parameter properties (C07, C08, C10, C12).
use super::e2e::*;
use super::{util::Rng, Args, Report};
use crate::geo::coordinates::Latitude;
use crate::geo::weather::{Pressure, Temperature, Weather};
use crate::prayer_times::params::{AsrShadowRatio, ExtremeLatitudeMethod as E, Method, Params, RoundSeconds};
use crate::prayer_times::Prayer;
use serde_json::json;

pub fn policies(nl: f64) -> Vec<E> {
    let l = Latitude::try_from(nl).unwrap();
    vec![
        E::None, E::AngleBased, E::NearestLatitudeAllPrayersAlways(l), E::NearestLatitudeFajrIshaAlways(l), E::NearestLatitudeFajrIshaInvalid(l),
        E::NearestGoodDayAllPrayersAlways, E::NearestGoodDayFajrIshaInvalid, E::SeventhOfNightFajrIshaAlways, E::SeventhOfNightFajrIshaInvalid,
        E::SeventhOfDayFajrIshaAlways, E::SeventhOfDayFajrIshaInvalid, E::HalfOfNightFajrIshaAlways, E::HalfOfNightFajrIshaInvalid,
        E::MinutesFromMaghribFajrIshaAlways, E::MinutesFromMaghribFajrIshaInvalid,
    ]
}
fn is_all(e: E) -> bool {
    matches!(e, E::NearestLatitudeAllPrayersAlways(_) | E::NearestGoodDayAllPrayersAlways)
}
fn is_inv(e: E) -> bool {
    matches!(e, E::NearestLatitudeFajrIshaInvalid(_) | E::NearestGoodDayFajrIshaInvalid | E::SeventhOfNightFajrIshaInvalid | E::SeventhOfDayFajrIshaInvalid | E::HalfOfNightFajrIshaInvalid | E::MinutesFromMaghribFajrIshaInvalid)
}
fn is_half(e: E) -> bool {
    matches!(e, E::HalfOfNightFajrIshaAlways | E::HalfOfNightFajrIshaInvalid)
}
fn uses_intervals(e: E) -> bool {
    matches!(e, E::HalfOfNightFajrIshaAlways | E::HalfOfNightFajrIshaInvalid | E::MinutesFromMaghribFajrIshaInvalid)
}
fn n_cases(a: &Args, quick: u64, thorough: u64) -> u64 {
    if a.thorough { thorough } else { quick }
}

// ------------------------------------------------------------------------------ C07
pub fn c07_e2e(a: &Args) -> Report {
    let n = n_cases(a, 100000, 800_000);
    let mut rep = Report::new("c07_e2e", &format!("{} seeded calls: 9 methods x 15 policies (nearest latitude anywhere in [-90,90]) x 4 rounding modes; latitudes incl. +-90, +-66.56, 0; angles [0,25], intervals [0,180], offsets [-1500,1500]; weather in range or absent; under catch_unwind with a 5 s watchdog per call", n));
    let mut rng = Rng::new(a.seed ^ 0xC07);
    let modes = [RoundSeconds::None, RoundSeconds::NormalRounding, RoundSeconds::SpecialRounding, RoundSeconds::AggressiveRounding];
    for k in 0..n {
        let mut c = any_case(&mut rng, k, 90., 6.);
        c.lat = match k % 9 {
            0 => 90., 1 => -90., 2 => 66.56, 3 => -66.56, 4 => 0., _ => c.lat,
        };
        let pols = policies(if k % 3 == 0 { rng.range(-90., 90.) } else { 48.5 });
        let mut p = Params::new(METHODS[(k % 9) as usize]);
        p.extreme_latitude_method = pols[((k / 9) % 15) as usize];
        p.round_seconds = modes[((k / 135) % 4) as usize];
        if k % 2 == 0 {
            p.angles.insert(Prayer::Fajr, rng.range(0., 25.));
            p.angles.insert(Prayer::Isha, rng.range(0., 25.));
            p.angles.insert(Prayer::Imsaak, rng.range(0., 25.));
            for pr in [Prayer::Fajr, Prayer::Isha, Prayer::Imsaak] {
                if rng.below(2) == 0 {
                    p.intervals.insert(pr, rng.range(0., 180.));
                }
            }
            for pr in [Prayer::Imsaak, Prayer::Fajr, Prayer::Shurooq, Prayer::Dhuhr, Prayer::Asr, Prayer::Maghrib, Prayer::Isha] {
                if rng.below(3) == 0 {
                    p.minutes.insert(pr, rng.range(-1500., 1500.));
                }
            }
            if rng.below(2) == 0 {
                p.asr_shadow_ratio = AsrShadowRatio::Hanafi;
            }
        }
        let w = if k % 4 == 0 { Some(Weather { pressure: Pressure::try_from(rng.range(100., 1050.)).unwrap(), temperature: Temperature::try_from(rng.range(-90., 57.)).unwrap() }) } else { None };
        rep.evaluations += 1;
        let t0 = std::time::Instant::now();
        let r = calc(&p, c.loc(), c.date, w);
        let dt = t0.elapsed().as_secs_f64();
        let desc = || json!({"case": c.json(), "method": format!("{:?}", METHODS[(k % 9) as usize]), "policy": format!("{:?}", p.extreme_latitude_method), "rounding": format!("{:?}", p.round_seconds),
            "angles": [p.angles[&Prayer::Fajr], p.angles[&Prayer::Isha], p.angles[&Prayer::Imsaak]], "intervals": [p.intervals[&Prayer::Fajr], p.intervals[&Prayer::Isha], p.intervals[&Prayer::Imsaak]]});
        match r {
            Err(_) => rep.fail(json!({"key": "c07-panic", "what": desc()})),
            Ok(t) => {
                if t.len() != 7 {
                    rep.fail(json!({"key": "c07-seven-entries", "what": desc(), "entries": t.len()}));
                }
            }
        }
        if dt > 5. {
            rep.fail(json!({"key": "c07-slow", "what": desc(), "seconds": dt}));
        }
        if c.lat.abs() > 66. {
            rep.distinct_nontrivial += 1;
        }
    }
    rep.sample(json!({"method": "UmmAlQurra", "lat": 70, "date": "2023-06-21", "policy": "None"}));
    rep
}

// ------------------------------------------------------------------------------ C08
pub fn c08_e2e(a: &Args) -> Report {
    let n = n_cases(a, 100000, 400_000);
    let mut rep = Report::new("c08_e2e", &format!("{} seeded cases |lat|<=70 (1/2 above 48), 8 named methods x 14 policies vs policy None on the same inputs; interval-consuming policies with angle methods only", n));
    let mut rng = Rng::new(a.seed ^ 0xC08);
    for k in 0..n {
        let mut c = any_case(&mut rng, k, 70., 2.);
        if k % 2 == 0 {
            c.lat = rng.range(48., 70.) * if k % 4 == 0 { 1. } else { -1. };
        }
        if k % 8 == 1 {
            // polar night inside the domain (|lat| 66.6..70 around the winter solstice): sunrise/sunset do not exist, twilight does
            let north = rng.below(2) == 0;
            c.lat = rng.range(66.7, 70.) * if north { 1. } else { -1. };
            let y = 1600 + rng.below(799) as i32;
            c.date = chrono::NaiveDate::from_ymd_opt(y, if north { 12 } else { 6 }, 5 + rng.below(25) as u32).unwrap();
        }
        let pol = policies(rng.range(-60., 60.))[1 + (k % 14) as usize];
        let m = if uses_intervals(pol) { ANGLE_METHODS[((k / 14) % 6) as usize] } else { METHODS[1 + ((k / 14) % 8) as usize] };
        let p0 = params(m, E::None);
        let p1 = params(m, pol);
        rep.evaluations += 1;
        let (t0, t1) = match (calc(&p0, c.loc(), c.date, None), calc(&p1, c.loc(), c.date, None)) {
            (Ok(x), Ok(y)) => (x, y),
            _ => {
                rep.fail(json!({"key": "c08-panic", "case": c.json(), "policy": format!("{:?}", pol), "method": format!("{:?}", m)}));
                continue;
            }
        };
        let d = |why: &str, pr: Prayer| json!({"key": why, "case": c.json(), "method": format!("{:?}", m), "policy": format!("{:?}", pol), "prayer": format!("{:?}", pr), "conventional": format!("{:?}", t0.get(&pr)), "with_policy": format!("{:?}", t1.get(&pr))});
        if !is_all(pol) {
            for pr in [Prayer::Shurooq, Prayer::Dhuhr, Prayer::Asr, Prayer::Maghrib] {
                if t1.get(&pr) != t0.get(&pr) {
                    rep.fail(d("c08-frame", pr));
                }
            }
        }
        for pr in [Prayer::Fajr, Prayer::Isha] {
            let interval_defined = p0.intervals[&pr] != 0.;
            let conv = t0.get(&pr).unwrap();
            let got = t1.get(&pr).unwrap();
            if is_inv(pol) && conv.is_ok() && !interval_defined && got != conv {
                rep.fail(d("c08-only-if-invalid", pr));
            }
            if !is_half(pol) {
                match got {
                    Ok(g) => {
                        if !g.extreme && Ok(*g) != *conv {
                            rep.fail(d("c08-unflagged-differs", pr));
                        }
                        if let Ok(cv) = conv {
                            if g.time != cv.time && !g.extreme {
                                rep.fail(d("c08-replaced-unflagged", pr));
                            }
                        } else if !g.extreme {
                            rep.fail(d("c08-replaced-unflagged", pr));
                        }
                    }
                    Err(()) => {
                        // an Invalid entry carries no flag: a conventionally valid, angle-defined time must not be withheld
                        if conv.is_ok() && !interval_defined && p1.intervals[&pr] == 0. {
                            rep.fail(d("c08-valid-time-withheld", pr));
                        }
                    }
                }
            }
        }
        if t0.values().any(|v| v.is_err()) {
            rep.distinct_nontrivial += 1;
        }
    }
    rep.sample(json!({"lat": 58.3, "lon": -134.4, "gmt": -9, "date": "2023-06-21", "method": "Isna", "policy": "SeventhOfNightFajrIshaInvalid"}));
    rep
}

// ------------------------------------------------------------------------------ C10
pub fn c10_formulas(a: &Args) -> Report {
    let n = n_cases(a, 100000, 400_000);
    let mut rep = Report::new("c10_formulas", &format!("{} seeded cases |lat|<=60, 8 named methods, substitute latitudes in [-60,60] of either sign; 'always' variants every day; all agree within 3 s", n));
    let mut rng = Rng::new(a.seed ^ 0xC10);
    for k in 0..n {
        let c = any_case(&mut rng, k, 60., 1.);
        let nl = rng.range(-60., 60.);
        let m = METHODS[1 + (k % 8) as usize];
        let p0 = params(m, E::None);
        let t0 = match calc(&p0, c.loc(), c.date, None) {
            Ok(t) => t,
            Err(_) => continue,
        };
        let (sh, mg) = match (secs(&t0, Prayer::Shurooq), secs(&t0, Prayer::Maghrib)) {
            (Some(x), Some(y)) => (x, y),
            _ => continue,
        };
        // Shurooq and Maghrib must fall within the civil day for the portion arithmetic to be meaningful
        if !(sh < mg) {
            continue;
        }
        rep.evaluations += 1;
        let l = Latitude::try_from(nl).unwrap();
        let fi = p0.intervals[&Prayer::Fajr];
        let ii = p0.intervals[&Prayer::Isha];
        let night = 86400. - (mg - sh);
        let day = mg - sh;
        let which = k % 7;
        let (pol, want_f, want_i): (E, Option<f64>, Option<f64>) = match which {
            0 => (E::SeventhOfNightFajrIshaAlways, Some(sh - night / 7.), Some(mg + night / 7.)),
            1 => (E::SeventhOfDayFajrIshaAlways, Some(sh - day / 7.), Some(mg + day / 7.)),
            2 => (E::MinutesFromMaghribFajrIshaAlways, Some(sh - fi * 60.), Some(mg + ii * 60.)),
            3 => (E::NearestLatitudeAllPrayersAlways(l), None, None),
            4 => (E::NearestLatitudeFajrIshaAlways(l), None, None),
            5 => (E::AngleBased, Some(sh - p0.angles[&Prayer::Fajr] / 60. * night), Some(mg + p0.angles[&Prayer::Isha] / 60. * night)),
            _ => (E::SeventhOfNightFajrIshaInvalid, Some(sh - night / 7.), Some(mg + night / 7.)),
        };
        let p1 = params(m, pol);
        let t1 = match calc(&p1, c.loc(), c.date, None) {
            Ok(t) => t,
            Err(_) => {
                rep.fail(json!({"key": "c10-panic", "case": c.json(), "policy": format!("{:?}", pol)}));
                continue;
            }
        };
        let near = |x: f64, y: f64| sdiff(x, y).abs() <= 3.;
        let fail = |rep: &mut Report, why: &str, pr: Prayer, want: f64| {
            rep.fail(json!({"key": why, "case": c.json(), "method": format!("{:?}", m), "policy": format!("{:?}", pol), "prayer": format!("{:?}", pr), "got": format!("{:?}", t1.get(&pr)), "expected_seconds": want.rem_euclid(86400.)}));
        };
        match which {
            3 | 4 => {
                // conventional times at the substitute latitude, same longitude, elevation, date
                let cl = loc(nl, c.lon, c.elev, c.gmt);
                if let Ok(ts) = calc(&p0, cl, c.date, None) {
                    let keys: Vec<Prayer> = if which == 3 { vec![Prayer::Fajr, Prayer::Shurooq, Prayer::Asr, Prayer::Maghrib, Prayer::Isha] } else { vec![Prayer::Fajr, Prayer::Isha] };
                    for pr in keys {
                        let interval_defined = (pr == Prayer::Fajr && fi != 0.) || (pr == Prayer::Isha && ii != 0.);
                        if interval_defined {
                            continue;
                        }
                        match (secs(&ts, pr), t1.get(&pr)) {
                            (Some(w), Some(Ok(g))) => {
                                if !near(g.time_secs(), w) || !g.extreme {
                                    fail(&mut rep, "c10-nearest-latitude", pr, w);
                                }
                            }
                            (Some(w), _) => {
                                if which == 3 || secs(&t0, pr).is_none() {
                                    fail(&mut rep, "c10-nearest-latitude", pr, w);
                                }
                            }
                            _ => {}
                        }
                    }
                    if which == 4 {
                        for pr in [Prayer::Shurooq, Prayer::Dhuhr, Prayer::Asr, Prayer::Maghrib] {
                            if t1.get(&pr) != t0.get(&pr) {
                                fail(&mut rep, "c10-nearest-latitude-frame", pr, 0.);
                            }
                        }
                    }
                }
            }
            _ => {
                for (pr, want, int) in [(Prayer::Fajr, want_f.unwrap(), fi), (Prayer::Isha, want_i.unwrap(), ii)] {
                    let conv_ok = secs(&t0, pr).is_some();
                    // 'invalid' variants and angle-based apply only on days where a time is missing
                    let applies = match which {
                        6 => !conv_ok,
                        5 => t0.iter().any(|(kk, v)| *kk != Prayer::Imsaak && v.is_err()),
                        _ => true,
                    };
                    // a Fajr/Isha that the method defines by an interval keeps that definition
                    let expect = if int != 0. && which != 2 { if pr == Prayer::Fajr { sh - int * 60. } else { mg + int * 60. } } else { want };
                    if !applies && int == 0. {
                        continue;
                    }
                    match t1.get(&pr) {
                        Some(Ok(g)) => {
                            if !near(g.time_secs(), expect) {
                                fail(&mut rep, "c10-portion-formula", pr, expect);
                            }
                            if applies && !g.extreme {
                                fail(&mut rep, "c10-replaced-not-flagged", pr, expect);
                            }
                        }
                        _ => fail(&mut rep, "c10-missing", pr, expect),
                    }
                }
            }
        }
        rep.distinct_nontrivial += 1;
    }
    rep.sample(json!({"lat": 58.3, "lon": -134.4, "date": "2023-06-21", "policy": "SeventhOfNightFajrIshaAlways"}));
    rep
}

trait TimeSecs {
    fn time_secs(&self) -> f64;
}
impl TimeSecs for crate::prayer_times::PrayerTime {
    fn time_secs(&self) -> f64 {
        use chrono::Timelike;
        self.time.num_seconds_from_midnight() as f64
    }
}

// ------------------------------------------------------------------------------ C12
pub fn c12_params(a: &Args) -> Report {
    let n = n_cases(a, 100000, 400_000);
    let mut rep = Report::new("c12_params", &format!("{} seeded cases |lat|<=62, all methods, offsets [-90,90] min on each key, intervals [1,120] min, +-1 deg angle changes, weather absent vs default", n));
    let mut rng = Rng::new(a.seed ^ 0xC12);
    let keys = [Prayer::Imsaak, Prayer::Fajr, Prayer::Shurooq, Prayer::Dhuhr, Prayer::Asr, Prayer::Maghrib, Prayer::Isha];
    for k in 0..n {
        let c = any_case(&mut rng, k, 62., 1.);
        let m = METHODS[(k % 9) as usize];
        let pol = if k % 2 == 0 { E::None } else { E::NearestGoodDayFajrIshaInvalid };
        let p0 = params(m, pol);
        let t0 = match calc(&p0, c.loc(), c.date, None) {
            Ok(t) => t,
            Err(_) => {
                rep.fail(json!({"key": "c12-panic", "case": c.json()}));
                continue;
            }
        };
        rep.evaluations += 1;
        let bad = |rep: &mut Report, why: &str, pr: Prayer, extra: serde_json::Value| {
            rep.fail(json!({"key": why, "case": c.json(), "method": format!("{:?}", m), "policy": format!("{:?}", pol), "prayer": format!("{:?}", pr), "detail": extra}));
        };
        match k % 6 {
            0 => {
                // minute offset on one key (Imsaak follows Fajr's offset; its own offset key is not consulted)
                let key = keys[1 + (rng.below(6)) as usize];
                let off = (rng.below(181) as f64) - 90.;
                let mut p1 = p0.clone();
                p1.minutes.insert(key, off);
                if let Ok(t1) = calc(&p1, c.loc(), c.date, None) {
                    for pr in keys.iter() {
                        let moved = *pr == key || (*pr == Prayer::Imsaak && key == Prayer::Fajr);
                        match (secs(&t0, *pr), secs(&t1, *pr)) {
                            (Some(x), Some(y)) => {
                                let want = if moved { off * 60. } else { 0. };
                                if (sdiff(y, x + want)).abs() > 1. {
                                    bad(&mut rep, "c12-offset", *pr, json!({"offset_key": format!("{:?}", key), "offset_min": off, "moved_seconds": sdiff(y, x)}));
                                }
                            }
                            (None, None) => {}
                            _ => bad(&mut rep, "c12-offset-validity", *pr, json!({"offset_key": format!("{:?}", key)})),
                        }
                    }
                }
            }
            1 => {
                // Isha / Fajr interval
                let iv = 1. + rng.below(120) as f64;
                let mut p1 = p0.clone();
                let isha = rng.below(2) == 0;
                p1.intervals.insert(if isha { Prayer::Isha } else { Prayer::Fajr }, iv);
                if let Ok(t1) = calc(&p1, c.loc(), c.date, None) {
                    let (pr, base, sign) = if isha { (Prayer::Isha, Prayer::Maghrib, 1.) } else { (Prayer::Fajr, Prayer::Shurooq, -1.) };
                    if let (Some(b), Some(x)) = (secs(&t1, base), secs(&t1, pr)) {
                        if sdiff(x, b + sign * iv * 60.).abs() > 1. {
                            bad(&mut rep, "c12-interval", pr, json!({"interval_min": iv, "base": b, "got": x}));
                        }
                    }
                }
            }
            2 => {
                // Imsaak interval: Imsaak = Fajr - interval; when Fajr is extreme Imsaak is 1.5 min before it and extreme too
                let iv = 1. + rng.below(120) as f64;
                let mut p1 = p0.clone();
                p1.intervals.insert(Prayer::Imsaak, iv);
                // with and without explicit weather, and also with a Shurooq-derived (interval-defined) Fajr:
                // Imsaak is derived from the Fajr of the SAME computation
                let wx = if rng.below(2) == 0 { None } else { Some(Weather { pressure: Pressure::try_from(rng.range(100., 1050.)).unwrap(), temperature: Temperature::try_from(rng.range(-90., 57.)).unwrap() }) };
                if rng.below(3) == 0 {
                    p1.intervals.insert(Prayer::Fajr, 30. + rng.below(90) as f64);
                }
                if let Ok(t1) = calc(&p1, c.loc(), c.date, wx) {
                    if let (Some(Ok(f)), Some(Ok(im))) = (t1.get(&Prayer::Fajr), t1.get(&Prayer::Imsaak)) {
                        let want = if f.extreme { iv } else { iv };
                        if sdiff(f.time_secs(), im.time_secs() + want * 60.).abs() > 1. {
                            bad(&mut rep, "c12-imsaak-interval", Prayer::Imsaak, json!({"interval_min": iv, "fajr": f.time.to_string(), "imsaak": im.time.to_string(), "fajr_extreme": f.extreme}));
                        }
                        if f.extreme != im.extreme {
                            bad(&mut rep, "c12-imsaak-flag", Prayer::Imsaak, json!({"fajr_extreme": f.extreme, "imsaak_extreme": im.extreme}));
                        }
                    }
                }
                // default (no Imsaak interval) with an extreme Fajr: 1.5 minutes before it
                if let (Some(Ok(f)), Some(Ok(im))) = (t0.get(&Prayer::Fajr), t0.get(&Prayer::Imsaak)) {
                    if f.extreme {
                        if sdiff(f.time_secs(), im.time_secs() + 90.).abs() > 1. || !im.extreme {
                            bad(&mut rep, "c12-imsaak-extreme", Prayer::Imsaak, json!({"fajr": f.time.to_string(), "imsaak": im.time.to_string(), "imsaak_extreme": im.extreme}));
                        }
                    }
                }
            }
            3 => {
                // Fajr angle +-1: only Fajr and Imsaak; Isha angle +-1: only Isha   (policy None: no cross-talk through fallbacks)
                let pn = params(m, E::None);
                let tn = match calc(&pn, c.loc(), c.date, None) { Ok(t) => t, Err(_) => continue };
                let d = if rng.below(2) == 0 { 1. } else { -1. };
                let fajr = rng.below(2) == 0;
                let mut p1 = pn.clone();
                let key = if fajr { Prayer::Fajr } else { Prayer::Isha };
                let cur = p1.angles[&key];
                p1.angles.insert(key, cur + d);
                if let Ok(t1) = calc(&p1, c.loc(), c.date, None) {
                    for pr in keys.iter() {
                        let may = if fajr { *pr == Prayer::Fajr || *pr == Prayer::Imsaak } else { *pr == Prayer::Isha };
                        if !may && t1.get(pr) != tn.get(pr) {
                            bad(&mut rep, "c12-angle-frame", *pr, json!({"changed_angle": format!("{:?}", key), "by": d}));
                        }
                    }
                }
            }
            4 => {
                // absent weather equals the default weather
                if let Ok(t1) = calc(&p0, c.loc(), c.date, Some(Weather::default())) {
                    if t1 != t0 {
                        bad(&mut rep, "c12-default-weather", Prayer::Shurooq, json!({}));
                    }
                }
            }
            _ => {
                // an offset on the Imsaak key itself is not consulted (Imsaak follows Fajr's offset)
                let mut p1 = p0.clone();
                p1.minutes.insert(Prayer::Imsaak, 17.);
                if let Ok(t1) = calc(&p1, c.loc(), c.date, None) {
                    for pr in keys.iter() {
                        if *pr != Prayer::Imsaak && t1.get(pr) != t0.get(pr) {
                            bad(&mut rep, "c12-offset", *pr, json!({"offset_key": "Imsaak"}));
                        }
                    }
                }
            }
        }
        rep.distinct_nontrivial += 1;
    }
    rep.sample(json!({"lat": 39, "lon": -77, "date": "2023-02-06", "change": "minutes[Asr] = +7"}));
    rep
}
