//! End-to-end bounded stand-ins through the public API (prayer_times_dt, Qibla::new) with
//! RoundSeconds::None, against the independent reference astronomy in refastro.rs.
//! Tolerances and exemption bands are exactly those of the property statements.
use super::refastro as ra;
use super::{util::Rng, Args, Report};
use crate::geo::coordinates::{Coordinates, Elevation, Gmt, Latitude, Location, Longitude};
use crate::geo::qibla::{Qibla, Rotation};
use crate::geo::weather::{Pressure, Temperature, Weather};
use crate::prayer_times::params::{AsrShadowRatio, ExtremeLatitudeMethod as E, Method, Params, RoundSeconds};
use crate::prayer_times::{prayer_times_dt, Prayer, PrayerTime};
use chrono::{Datelike, Duration, NaiveDate, Timelike};
use serde_json::json;
use std::collections::BTreeMap;

pub const METHODS: [Method; 9] = [Method::None, Method::Egyptian, Method::Egypt, Method::Shafi, Method::Hanafi, Method::Isna, Method::Mwl, Method::UmmAlQurra, Method::FixedIsha];
pub const ANGLE_METHODS: [Method; 6] = [Method::Egyptian, Method::Egypt, Method::Shafi, Method::Hanafi, Method::Isna, Method::Mwl];

pub type Times = BTreeMap<Prayer, Result<PrayerTime, ()>>;

pub fn loc(lat: f64, lon: f64, elev: f64, gmt: f64) -> Location {
    Location {
        coords: Coordinates::new(Latitude::try_from(lat).unwrap(), Longitude::try_from(lon).unwrap(), Elevation::try_from(elev).unwrap()),
        gmt: Gmt::try_from(gmt).unwrap(),
    }
}
pub fn params(m: Method, elm: E) -> Params {
    let mut p = Params::new(m);
    p.round_seconds = RoundSeconds::None;
    p.extreme_latitude_method = elm;
    p
}
/// seconds since local midnight
pub fn secs(t: &Times, p: Prayer) -> Option<f64> {
    match t.get(&p) {
        Some(Ok(pt)) => Some(pt.time.num_seconds_from_midnight() as f64),
        _ => None,
    }
}
/// signed difference a-b in seconds folded into (-12h, 12h]
pub fn sdiff(a: f64, b: f64) -> f64 {
    let mut d = (a - b) % 86400.;
    if d > 43200. {
        d -= 86400.;
    }
    if d <= -43200. {
        d += 86400.;
    }
    d
}
pub fn calc(p: &Params, l: Location, d: NaiveDate, w: Option<Weather>) -> Result<Times, String> {
    let pc = p.clone();
    std::panic::catch_unwind(move || prayer_times_dt(&pc, l, d, w)).map_err(|_| "panic".to_string())
}

pub struct Case {
    pub lat: f64,
    pub lon: f64,
    pub elev: f64,
    pub gmt: f64,
    pub date: NaiveDate,
}
impl Case {
    pub fn json(&self) -> serde_json::Value {
        json!({"lat": self.lat, "lon": self.lon, "elev": self.elev, "gmt": self.gmt, "date": self.date.to_string()})
    }
    pub fn loc(&self) -> Location {
        loc(self.lat, self.lon, self.elev, self.gmt)
    }
}
/// dates 1600-01-01..2399-12-31, always mixing in leap days, year ends and the days around the March equinox
pub fn any_date(rng: &mut Rng, k: u64) -> NaiveDate {
    let y = 1600 + rng.below(800) as i32;
    match k % 8 {
        0 => NaiveDate::from_ymd_opt(y, 3, 18 + rng.below(6) as u32).unwrap(),
        1 => NaiveDate::from_ymd_opt(y, 12, 31).unwrap() + Duration::days(rng.below(3) as i64 - 1),
        2 => NaiveDate::from_ymd_opt(y, 2, 28).unwrap() + Duration::days(rng.below(3) as i64),
        3 => NaiveDate::from_ymd_opt(y, 6, 19 + rng.below(5) as u32).unwrap(),
        _ => NaiveDate::from_yo_opt(y, 1 + rng.below(365) as u32).unwrap(),
    }
}
pub fn any_case(rng: &mut Rng, k: u64, maxlat: f64, gmt_slack: f64) -> Case {
    let lat = match k % 11 {
        0 => maxlat,
        1 => -maxlat,
        2 => 0.,
        3 => 23.44_f64.min(maxlat),
        _ => rng.range(-maxlat, maxlat),
    };
    let lon = match k % 13 {
        0 => 180.,
        1 => -180.,
        2 => 0.,
        _ => rng.range(-180., 180.),
    };
    let mut gmt = (lon / 15. + rng.range(-gmt_slack, gmt_slack)).round();
    if k % 5 == 0 {
        gmt += 0.5;
    }
    let gmt = gmt.max(-12.).min(12.);
    let elev = if k % 4 == 0 { rng.range(-420., 8848.) } else { 0. };
    Case { lat, lon, elev, gmt, date: any_date(rng, k) }
}

fn n_cases(a: &Args, quick: u64, thorough: u64) -> u64 {
    if a.thorough {
        thorough
    } else {
        quick
    }
}

// ------------------------------------------------------------------------------ C01
pub fn c01_dhuhr(a: &Args) -> Report {
    let n = n_cases(a, 200000, 1_000_000);
    let mut rep = Report::new("c01_dhuhr", &format!("{} seeded cases: lat [-90,90], lon [-180,180], gmt within 6 h of lon/15, dates 1600..2399 (1/8 in the March-equinox week, leap days, year ends), 9 methods; plus EVERY 18-24 March of 1600..2399 at 3 sites", n));
    let mut rng = Rng::new(a.seed ^ 0xC01);
    let mut check = |rep: &mut Report, c: &Case, m: Method| {
        rep.evaluations += 1;
        let p = params(m, E::None);
        match calc(&p, c.loc(), c.date, None) {
            Err(e) => rep.fail(json!({"key": "c01-panic", "case": c.json(), "why": e})),
            Ok(t) => match secs(&t, Prayer::Dhuhr) {
                None => rep.fail(json!({"key": "c01-dhuhr-invalid", "case": c.json(), "why": "Dhuhr not reported"})),
                Some(s) => {
                    let jd = ra::jd_local_midnight(c.date, c.gmt) + s / 86400.;
                    let ha_s = ra::hour_angle(jd, c.lon) * 240.;
                    // the reported second is truncated: allow the 1 s truncation on top of the 10 s
                    if !(ha_s.abs() <= 10. + 1.) {
                        rep.fail(json!({"key": "c01-hour-angle", "case": c.json(), "method": format!("{:?}", m), "dhuhr": t[&Prayer::Dhuhr].unwrap().time.to_string(), "hour_angle_seconds": ha_s}));
                    }
                }
            },
        }
    };
    for k in 0..n {
        let c = any_case(&mut rng, k, 90., 6.);
        check(&mut rep, &c, METHODS[(k % 9) as usize]);
        if c.date.month() == 3 {
            rep.distinct_nontrivial += 1;
        }
    }
    let ystep = if a.thorough { 1 } else { 3 };
    let mut y = 1600 + (a.seed % ystep as u64) as i32;
    while y <= 2399 {
        for d in 18..=24 {
            for (lat, lon, gmt) in [(30., 0., 0.), (-33.9, 151.2, 10.), (64.1, -21.9, 0.)] {
                let c = Case { lat, lon, elev: 0., gmt, date: NaiveDate::from_ymd_opt(y, 3, d).unwrap() };
                check(&mut rep, &c, Method::Mwl);
                rep.distinct_nontrivial += 1;
            }
        }
        y += ystep;
    }
    rep.sample(json!({"lat": 30, "lon": 0, "gmt": 0, "date": "2023-03-21", "method": "Mwl"}));
    rep
}

// ------------------------------------------------------------------------------ C02
pub fn c02_sunrise(a: &Args) -> Report {
    let n = n_cases(a, 150000, 600_000);
    let mut rep = Report::new("c02_sunrise", &format!("{} seeded cases |lat|<=60, all lon, gmt within 2 h of lon/15, dates 1600..2399, 9 methods; 1/4 with weather over the full valid range", n));
    let mut rng = Rng::new(a.seed ^ 0xC02);
    for k in 0..n {
        // GMT offset within 2 h of lon/15: sunrise/sunset then fall inside the civil day at |lat|<=60 (no midnight seam)
        let c = any_case(&mut rng, k, 60., 1.);
        let p = params(METHODS[(k % 9) as usize], E::None);
        rep.evaluations += 1;
        let t = match calc(&p, c.loc(), c.date, None) {
            Ok(t) => t,
            Err(e) => {
                rep.fail(json!({"key": "c02-panic", "case": c.json(), "why": e}));
                continue;
            }
        };
        let dh = secs(&t, Prayer::Dhuhr);
        for (pr, before) in [(Prayer::Shurooq, true), (Prayer::Maghrib, false)] {
            match (secs(&t, pr), dh) {
                (Some(s), Some(d)) => {
                    // the event before / after that day's noon (a clock reading past midnight belongs to the neighbouring civil day)
                    let rel = if before { -((d - s).rem_euclid(86400.)) } else { (s - d).rem_euclid(86400.) };
                    let jd = ra::jd_local_midnight(c.date, c.gmt) + (d + rel) / 86400.;
                    let alt = ra::altitude(jd, c.lat, c.lon);
                    // 1 s truncation moves the altitude by at most 0.0042 deg
                    if (alt + 0.833).abs() > 0.05 + 0.005 {
                        rep.fail(json!({"key": "c02-altitude", "case": c.json(), "prayer": format!("{:?}", pr), "time": t[&pr].unwrap().time.to_string(), "sun_centre_altitude": alt}));
                    }
                    if rel.abs() >= 43200. || rel == 0. {
                        rep.fail(json!({"key": "c02-side-of-noon", "case": c.json(), "prayer": format!("{:?}", pr), "rel_seconds": rel}));
                    }
                    rep.distinct_nontrivial += 1;
                }
                _ => rep.fail(json!({"key": "c02-missing", "case": c.json(), "prayer": format!("{:?}", pr), "why": "not reported at |lat|<=60"})),
            }
        }
        if k % 4 == 0 {
            // weather: moves Shurooq/Maghrib by seconds only (<= 20 s; the unchanged code moves them by at most 8 s), nothing else at all
            let w = Weather { pressure: Pressure::try_from(rng.range(100., 1050.)).unwrap(), temperature: Temperature::try_from(rng.range(-90., 57.)).unwrap() };
            if let Ok(tw) = calc(&p, c.loc(), c.date, Some(w)) {
                for pr in [Prayer::Imsaak, Prayer::Fajr, Prayer::Dhuhr, Prayer::Asr, Prayer::Isha] {
                    let interval_defined = (pr == Prayer::Isha && p.intervals[&Prayer::Isha] != 0.) || ((pr == Prayer::Fajr || pr == Prayer::Imsaak) && p.intervals[&Prayer::Fajr] != 0.);
                    if !interval_defined && tw.get(&pr) != t.get(&pr) {
                        rep.fail(json!({"key": "c02-weather-frame", "case": c.json(), "prayer": format!("{:?}", pr), "why": "weather changed a time not derived from sunrise/sunset"}));
                    }
                }
                for pr in [Prayer::Shurooq, Prayer::Maghrib] {
                    if let (Some(x), Some(y)) = (secs(&tw, pr), secs(&t, pr)) {
                        // measured on the unchanged code: at most 8 s over the whole valid weather range at |lat| <= 60
                        if sdiff(x, y).abs() > 20. {
                            rep.fail(json!({"key": "c02-weather-magnitude", "case": c.json(), "prayer": format!("{:?}", pr), "moved_seconds": sdiff(x, y), "pressure": f64::from(w.pressure), "temperature": f64::from(w.temperature)}));
                        }
                    }
                }
            }
        }
    }
    rep.sample(json!({"lat": 39, "lon": -77, "gmt": -5, "date": "2023-02-06"}));
    rep
}

// ------------------------------------------------------------------------------ C03 / C04 / C05
fn dec_of_date(c: &Case) -> f64 {
    ra::sun(ra::jd_local_midnight(c.date, c.gmt)).dec
}

pub fn c03_twilight(a: &Args) -> Report {
    let n = n_cases(a, 150000, 600_000);
    let mut rep = Report::new("c03_twilight", &format!("{} seeded cases |lat|<=60, dates 1600..2399, 6 angle methods + custom Fajr/Isha angles in [9,21], Imsaak angles in [0.5,3]", n));
    let mut rng = Rng::new(a.seed ^ 0xC03);
    for k in 0..n {
        let mut c = any_case(&mut rng, k, 60., 3.);
        if k % 6 == 5 {
            // GMT offsets up to 7 h away from lon/15 (beyond ~10 h "which day" is ambiguous): the clauses are stated
            // relative to that day's Dhuhr, so a time falling on the other side of clock midnight does not matter
            c.gmt = (((c.lon / 15. + rng.range(-7., 7.)) * 4.).round() / 4.).max(-12.).min(12.);
        }
        let mut p = params(ANGLE_METHODS[(k % 6) as usize], E::None);
        if k % 3 == 0 {
            p.angles.insert(Prayer::Fajr, rng.range(9., 21.));
            p.angles.insert(Prayer::Isha, rng.range(9., 21.));
            p.angles.insert(Prayer::Imsaak, rng.range(0.5, 3.));
        }
        rep.evaluations += 1;
        let t = match calc(&p, c.loc(), c.date, None) {
            Ok(t) => t,
            Err(e) => {
                rep.fail(json!({"key": "c03-panic", "case": c.json(), "why": e}));
                continue;
            }
        };
        let dec = dec_of_date(&c);
        let d = match secs(&t, Prayer::Dhuhr) {
            Some(d) => d,
            None => continue,
        };
        let fa = p.angles[&Prayer::Fajr];
        let ia = p.angles[&Prayer::Isha];
        let ima = p.angles[&Prayer::Imsaak];
        for (pr, ang, before) in [(Prayer::Fajr, fa, true), (Prayer::Isha, ia, false), (Prayer::Imsaak, fa + ima, true)] {
            if let Some(s) = secs(&t, pr) {
                let dd = sdiff(s, d);
                if (before && dd >= 0.) || (!before && dd <= 0.) {
                    rep.fail(json!({"key": "c03-side-of-noon", "case": c.json(), "prayer": format!("{:?}", pr)}));
                }
                // with that date's declination: hour angle = 15 deg per hour from Dhuhr (1 s truncation on each end: 0.0084 deg of H)
                let alt = ra::alt_from(c.lat, dec, dd / 240.);
                if (alt + ang).abs() > 0.03 + 0.01 {
                    rep.fail(json!({"key": "c03-depression", "case": c.json(), "prayer": format!("{:?}", pr), "angle": ang, "altitude_with_date_declination": alt, "time": t[&pr].unwrap().time.to_string()}));
                }
                let jd = ra::jd_local_midnight(c.date, c.gmt) + (d + dd) / 86400.;
                let talt = ra::altitude(jd, c.lat, c.lon);
                if (talt + ang).abs() > 0.5 {
                    rep.fail(json!({"key": "c03-true-altitude", "case": c.json(), "prayer": format!("{:?}", pr), "angle": ang, "true_altitude": talt}));
                }
                rep.distinct_nontrivial += 1;
            }
        }
        if k % 5 == 0 {
            // monotonicity: a larger angle never gives a later Fajr/Imsaak or an earlier Isha
            let mut p2 = p.clone();
            p2.angles.insert(Prayer::Fajr, fa + 1.);
            p2.angles.insert(Prayer::Isha, ia + 1.);
            if let Ok(t2) = calc(&p2, c.loc(), c.date, None) {
                for (pr, before) in [(Prayer::Fajr, true), (Prayer::Imsaak, true), (Prayer::Isha, false)] {
                    if let (Some(x), Some(y)) = (secs(&t, pr), secs(&t2, pr)) {
                        let dl = sdiff(y, x);
                        if (before && dl > 0.) || (!before && dl < 0.) {
                            rep.fail(json!({"key": "c03-monotone", "case": c.json(), "prayer": format!("{:?}", pr), "moved": dl}));
                        }
                    }
                }
            }
        }
    }
    rep.sample(json!({"lat": 39, "lon": -77, "gmt": -5, "date": "2023-02-06", "method": "Isna"}));
    rep
}

pub fn c04_asr(a: &Args) -> Report {
    let n = n_cases(a, 150000, 600_000);
    let mut rep = Report::new("c04_asr", &format!("{} seeded cases |lat|<=60, dates 1600..2399, both schools, 1/10 at lat = declination (zenith passage)", n));
    let mut rng = Rng::new(a.seed ^ 0xC04);
    for k in 0..n {
        let mut c = any_case(&mut rng, k, 60., 3.);
        if k % 10 == 0 {
            c.lat = dec_of_date(&c);
        }
        let mut ps = params(Method::Mwl, E::None);
        ps.asr_shadow_ratio = AsrShadowRatio::Shafi;
        let mut ph = ps.clone();
        ph.asr_shadow_ratio = AsrShadowRatio::Hanafi;
        rep.evaluations += 1;
        let (ts, th) = match (calc(&ps, c.loc(), c.date, None), calc(&ph, c.loc(), c.date, None)) {
            (Ok(x), Ok(y)) => (x, y),
            _ => {
                rep.fail(json!({"key": "c04-panic", "case": c.json()}));
                continue;
            }
        };
        let dec = dec_of_date(&c);
        for (t, kk) in [(&ts, 1.), (&th, 2.)] {
            if let (Some(s), Some(d)) = (secs(t, Prayer::Asr), secs(t, Prayer::Dhuhr)) {
                let dd = sdiff(s, d);
                let want = ra::deg((1. / (kk + ra::rad((c.lat - dec).abs()).tan())).atan());
                let alt = ra::alt_from(c.lat, dec, dd / 240.);
                if (alt - want).abs() > 0.03 + 0.01 {
                    rep.fail(json!({"key": "c04-altitude", "case": c.json(), "k": kk, "altitude": alt, "expected": want}));
                }
                if dd <= 0. {
                    rep.fail(json!({"key": "c04-after-dhuhr", "case": c.json(), "k": kk}));
                }
                if let Some(m) = secs(t, Prayer::Maghrib) {
                    if sdiff(m, s) <= 0. {
                        rep.fail(json!({"key": "c04-before-maghrib", "case": c.json(), "k": kk}));
                    }
                }
                rep.distinct_nontrivial += 1;
            }
        }
        if let (Some(x), Some(y)) = (secs(&ts, Prayer::Asr), secs(&th, Prayer::Asr)) {
            if sdiff(y, x) <= 0. {
                rep.fail(json!({"key": "c04-hanafi-later", "case": c.json()}));
            }
        }
        // the school changes only Asr (C12)
        for pr in [Prayer::Imsaak, Prayer::Fajr, Prayer::Shurooq, Prayer::Dhuhr, Prayer::Maghrib, Prayer::Isha] {
            if ts.get(&pr) != th.get(&pr) {
                rep.fail(json!({"key": "c12-asr-school-frame", "case": c.json(), "prayer": format!("{:?}", pr)}));
            }
        }
    }
    rep.sample(json!({"lat": 21.4, "lon": 39.8, "gmt": 3, "date": "2023-05-28", "schools": ["Shafi", "Hanafi"]}));
    rep
}

pub fn c05_order(a: &Args) -> Report {
    let n = n_cases(a, 150000, 600_000);
    let mut rep = Report::new("c05_order", &format!("{} seeded cases |lat|<=60, dates 1600..2399, 8 named methods + custom angles in [9,21], 4 rounding modes, policy None", n));
    let mut rng = Rng::new(a.seed ^ 0xC05);
    let modes = [RoundSeconds::None, RoundSeconds::NormalRounding, RoundSeconds::SpecialRounding, RoundSeconds::AggressiveRounding];
    for k in 0..n {
        let c = any_case(&mut rng, k, 60., 3.);
        let mut p = params(METHODS[1 + (k % 8) as usize], E::None);
        p.round_seconds = modes[(k % 4) as usize];
        if k % 7 == 0 {
            p.angles.insert(Prayer::Fajr, rng.range(9., 21.));
            p.angles.insert(Prayer::Isha, rng.range(9., 21.));
            p.intervals.insert(Prayer::Isha, 0.);
        }
        rep.evaluations += 1;
        let t = match calc(&p, c.loc(), c.date, None) {
            Ok(t) => t,
            Err(e) => {
                rep.fail(json!({"key": "c05-panic", "case": c.json(), "why": e}));
                continue;
            }
        };
        if t.len() != 7 {
            rep.fail(json!({"key": "c05-seven-entries", "case": c.json(), "entries": t.len()}));
        }
        for (_, v) in t.iter() {
            if let Ok(pt) = v {
                if pt.extreme {
                    rep.fail(json!({"key": "c05-flag-without-policy", "case": c.json()}));
                }
            }
        }
        let d = match secs(&t, Prayer::Dhuhr) {
            Some(d) => d,
            None => {
                rep.fail(json!({"key": "c05-dhuhr-missing", "case": c.json()}));
                continue;
            }
        };
        let order = [Prayer::Imsaak, Prayer::Fajr, Prayer::Shurooq, Prayer::Dhuhr, Prayer::Asr, Prayer::Maghrib, Prayer::Isha];
        let mut prev: Option<(Prayer, f64)> = None;
        for pr in order.iter() {
            if let Some(s) = secs(&t, *pr) {
                // measured before / after that day's Dhuhr, each within 12 h of it
                let rel = match pr {
                    Prayer::Imsaak | Prayer::Fajr | Prayer::Shurooq => -((d - s).rem_euclid(86400.)),
                    Prayer::Dhuhr => 0.,
                    _ => (s - d).rem_euclid(86400.),
                };
                if rel.abs() > 43200. {
                    rep.fail(json!({"key": "c05-within-12h", "case": c.json(), "prayer": format!("{:?}", pr), "rel_seconds": rel}));
                }
                if let Some((pp, pv)) = prev {
                    let ok = if pp == Prayer::Imsaak { pv <= rel } else { pv < rel };
                    if !ok {
                        rep.fail(json!({"key": "c05-order", "case": c.json(), "method": format!("{:?}", METHODS[1 + (k % 8) as usize]), "rounding": format!("{:?}", p.round_seconds), "pair": [format!("{:?}", pp), format!("{:?}", pr)], "rel_seconds": [pv, rel]}));
                    }
                }
                prev = Some((*pr, rel));
            }
        }
        rep.distinct_nontrivial += 1;
    }
    rep.sample(json!({"lat": 39, "lon": -77, "gmt": -5, "date": "2023-02-06", "method": "UmmAlQurra"}));
    rep
}

// ------------------------------------------------------------------------------ C06
pub fn c06_validity(a: &Args) -> Report {
    let n = n_cases(a, 200000, 800_000);
    let mut rep = Report::new("c06_validity", &format!("{} seeded cases lat up to +-89.5 (1/2 with |lat|>=48), dates 1600..2399 (1/4 near solstices), angle methods, policy None; 0.05 deg exemption band", n));
    let mut rng = Rng::new(a.seed ^ 0xC06);
    for k in 0..n {
        let mut c = any_case(&mut rng, k, 89.5, 3.);
        if k % 2 == 0 {
            c.lat = rng.range(48., 89.5) * if k % 4 == 0 { 1. } else { -1. };
        }
        let m = ANGLE_METHODS[(k % 6) as usize];
        let p = params(m, E::None);
        rep.evaluations += 1;
        let t = match calc(&p, c.loc(), c.date, None) {
            Ok(t) => t,
            Err(e) => {
                rep.fail(json!({"key": "c06-panic", "case": c.json(), "why": e}));
                continue;
            }
        };
        let dec = dec_of_date(&c);
        let (amax, amin) = ra::alt_extremes(c.lat, dec);
        let kk = if p.asr_shadow_ratio == AsrShadowRatio::Hanafi { 2. } else { 1. };
        let asr_alt = ra::deg((1. / (kk + ra::rad((c.lat - dec).abs()).tan())).atan());
        let targets = [
            (Prayer::Fajr, -p.angles[&Prayer::Fajr]),
            (Prayer::Isha, -p.angles[&Prayer::Isha]),
            (Prayer::Shurooq, -0.83337),
            (Prayer::Maghrib, -0.83337),
            (Prayer::Asr, asr_alt),
        ];
        let mut nontrivial = false;
        for (pr, target) in targets.iter() {
            // exempt when the Sun's extreme altitude that day is within 0.05 deg of the defining altitude
            // (plus 0.01 for the parallax/series difference between the two ephemerides)
            if (amax - target).abs() <= 0.06 || (amin - target).abs() <= 0.06 {
                continue;
            }
            let reachable = amin <= *target && *target <= amax;
            let reported = secs(&t, *pr).is_some();
            if reachable != reported {
                rep.fail(json!({"key": if reported { "c06-fabricated" } else { "c06-withheld" }, "case": c.json(), "method": format!("{:?}", m), "prayer": format!("{:?}", pr), "defining_altitude": target, "sun_altitude_range_that_day": [amin, amax], "reported": reported}));
            }
            if !reachable {
                nontrivial = true;
            }
        }
        if secs(&t, Prayer::Dhuhr).is_none() {
            rep.fail(json!({"key": "c06-dhuhr", "case": c.json()}));
        }
        if nontrivial {
            rep.distinct_nontrivial += 1;
        }
    }
    rep.sample(json!({"lat": 70, "lon": 20, "gmt": 1, "date": "2023-06-21", "method": "Mwl", "expect": "Fajr, Isha, Shurooq, Maghrib invalid"}));
    rep
}

// ------------------------------------------------------------------------------ C13
pub fn c13_smooth(a: &Args) -> Report {
    let n = n_cases(a, 100000, 400_000);
    let mut rep = Report::new("c13_smooth", &format!("{} seeded date triples (1/8 around the March equinox, month/year ends, leap days) |lat|<=45 (Fajr/Isha 40; Asr 25..45), angle methods; plus EVERY consecutive triple of 4 sampled years at 2 sites", n));
    let mut rng = Rng::new(a.seed ^ 0xC13);
    let mut triple = |rep: &mut Report, c: &Case, m: Method| {
        let p = params(m, E::None);
        rep.evaluations += 1;
        let mut ts = vec![];
        for off in [-1i64, 0, 1] {
            match calc(&p, c.loc(), c.date + Duration::days(off), None) {
                Ok(t) => ts.push(t),
                Err(_) => {
                    rep.fail(json!({"key": "c13-panic", "case": c.json()}));
                    return;
                }
            }
        }
        let lim = |pr: Prayer| -> Option<f64> {
            match pr {
                Prayer::Dhuhr => Some(5.),
                Prayer::Shurooq | Prayer::Maghrib => Some(8.),
                Prayer::Asr => if c.lat.abs() >= 25. { Some(8.) } else { None },
                Prayer::Fajr | Prayer::Isha => if c.lat.abs() <= 40. { Some(12.) } else { None },
                _ => None,
            }
        };
        for pr in [Prayer::Fajr, Prayer::Shurooq, Prayer::Dhuhr, Prayer::Asr, Prayer::Maghrib, Prayer::Isha] {
            if let (Some(x), Some(y), Some(z)) = (secs(&ts[0], pr), secs(&ts[1], pr), secs(&ts[2], pr)) {
                // a reading within 10 min of clock midnight may belong to the neighbouring civil day (day seam): not compared
                if [x, y, z].iter().any(|s| *s < 600. || *s > 85800.) {
                    continue;
                }
                let d1 = sdiff(y, x);
                let d2 = sdiff(z, y);
                // truncated seconds: each reading is up to 1 s low => second difference slack 2 s, first difference 1 s
                if let Some(l) = lim(pr) {
                    if (d2 - d1).abs() > l + 2. {
                        rep.fail(json!({"key": "c13-second-difference", "case": c.json(), "prayer": format!("{:?}", pr), "method": format!("{:?}", m), "times": [x, y, z], "second_difference": d2 - d1, "limit": l}));
                    }
                }
                if lim(pr).is_some() && (d1.abs() >= 240. + 1. || d2.abs() >= 240. + 1.) {
                    rep.fail(json!({"key": "c13-daily-change", "case": c.json(), "prayer": format!("{:?}", pr), "changes": [d1, d2]}));
                }
            }
        }
    };
    for k in 0..n {
        // a quarter of the cases with a civil zone up to 4.5 h away from local mean time (times then cross clock midnight;
        // differences are taken on the 24 h circle)
        let c = any_case(&mut rng, k, 45., if k % 4 == 3 { 4. } else { 2. });
        triple(&mut rep, &c, ANGLE_METHODS[(k % 6) as usize]);
        rep.distinct_nontrivial += 1;
    }
    for (i, y) in [1600 + (a.seed % 700) as i32, 2023, 2024, 2399].iter().enumerate() {
        let mut d = NaiveDate::from_ymd_opt(*y, 1, 1).unwrap();
        while d.year() == *y {
            for (lat, lon, gmt) in [(30., 0., 0.), (-35., 149., 10.)] {
                let c = Case { lat, lon, elev: 0., gmt, date: d };
                triple(&mut rep, &c, ANGLE_METHODS[i % 6]);
            }
            d = d.succ_opt().unwrap();
        }
    }
    rep.sample(json!({"lat": 30, "lon": 0, "gmt": 0, "dates": ["2023-03-20", "2023-03-21", "2023-03-22"]}));
    rep
}

// ------------------------------------------------------------------------------ C20
pub fn c20_zones(a: &Args) -> Report {
    let n = n_cases(a, 100000, 400_000);
    let mut rep = Report::new("c20_zones", &format!("{} seeded cases |lat|<=45, shifts d in {{-3..3}} h of the GMT offset and 15 deg east + 1 h, staying in range, all methods", n));
    let mut rng = Rng::new(a.seed ^ 0xC20);
    for k in 0..n {
        let mut c = any_case(&mut rng, k, 45., 2.);
        c.gmt = c.gmt.max(-8.).min(8.);
        c.lon = c.lon.max(-160.).min(160.);
        let p = params(METHODS[(k % 9) as usize], E::None);
        rep.evaluations += 1;
        let t0 = match calc(&p, c.loc(), c.date, None) {
            Ok(t) => t,
            Err(_) => {
                rep.fail(json!({"key": "c20-panic", "case": c.json()}));
                continue;
            }
        };
        let d = (rng.below(7) as f64) - 3.;
        // a reported time within 90 min of local midnight may belong to the neighbouring civil day after the
        // shift (a different physical event): such configurations are outside the comparison
        let seam = |t: &Times| t.values().any(|v| match v { Ok(pt) => { let s = pt.time.num_seconds_from_midnight(); s < 5400 || s > 81000 } Err(()) => false });
        if seam(&t0) {
            continue;
        }
        // (a) GMT offset only: every time moves by d hours
        if let Ok(t1) = calc(&p, loc(c.lat, c.lon, c.elev, c.gmt + d), c.date, None) { if !seam(&t1) {
            for (pr, v) in t0.iter() {
                match (secs(&t0, *pr), secs(&t1, *pr)) {
                    (Some(x), Some(y)) => {
                        // 10 s per hour of shift: the statement's figure for a one-hour shift; "the Sun's own motion
                        // during the shifted interval" is proportional to |d| (+1 s for the truncated seconds)
                        if (sdiff(y, x + d * 3600.)).abs() > 10. * d.abs().max(1.) + 1. {
                            rep.fail(json!({"key": "c20-gmt-shift", "case": c.json(), "d_hours": d, "prayer": format!("{:?}", pr), "moved_seconds": sdiff(y, x)}));
                        }
                    }
                    (None, None) => {}
                    _ => rep.fail(json!({"key": "c20-validity", "case": c.json(), "d_hours": d, "prayer": format!("{:?}", pr)})),
                }
                let _ = v;
            }
        } }
        // (b) 15 deg east and +1 h: clock times unchanged
        if let Ok(t2) = calc(&p, loc(c.lat, c.lon + 15., c.elev, c.gmt + 1.), c.date, None) { if !seam(&t2) {
            for (pr, _) in t0.iter() {
                match (secs(&t0, *pr), secs(&t2, *pr)) {
                    (Some(x), Some(y)) => {
                        if sdiff(y, x).abs() > 10. + 1. {
                            rep.fail(json!({"key": "c20-meridian-shift", "case": c.json(), "prayer": format!("{:?}", pr), "moved_seconds": sdiff(y, x)}));
                        }
                    }
                    (None, None) => {}
                    _ => rep.fail(json!({"key": "c20-validity", "case": c.json(), "prayer": format!("{:?}", pr)})),
                }
            }
        } }
        rep.distinct_nontrivial += 1;
    }
    rep.sample(json!({"lat": 39, "lon": -77, "gmt": -5, "shift": "gmt -4 / lon -62 gmt -4"}));
    rep
}

// ------------------------------------------------------------------------------ C16
pub fn c16_qibla(a: &Args) -> Report {
    let n = n_cases(a, 400_000, 5_000_000);
    let mut rep = Report::new("c16_qibla", &format!("{} seeded points + 1 deg grid incl. the date line, the Kaaba's meridian and antimeridian; 0.1 deg discs around the Kaaba and its antipode exempt", n));
    let mut rng = Rng::new(a.seed ^ 0xC16);
    let (klat, klon) = (21.423333_f64, 39.823333_f64);
    let kv = {
        let (p, l) = (ra::rad(klat), ra::rad(klon));
        [p.cos() * l.cos(), p.cos() * l.sin(), p.sin()]
    };
    let mut check = |rep: &mut Report, lat: f64, lon: f64, elev: f64| {
        let (p, l) = (ra::rad(lat), ra::rad(lon));
        let v = [p.cos() * l.cos(), p.cos() * l.sin(), p.sin()];
        let dot = v[0] * kv[0] + v[1] * kv[1] + v[2] * kv[2];
        let ang = ra::deg(dot.max(-1.).min(1.).acos());
        if ang < 0.1 || ang > 179.9 {
            return;
        }
        rep.evaluations += 1;
        // independent: local east / north unit vectors; bearing east of north, then positive = west (counter-clockwise)
        let east = [-l.sin(), l.cos(), 0.];
        let north = [-p.sin() * l.cos(), -p.sin() * l.sin(), p.cos()];
        let e = kv[0] * east[0] + kv[1] * east[1] + kv[2] * east[2];
        let nn = kv[0] * north[0] + kv[1] * north[1] + kv[2] * north[2];
        let bearing_east = ra::deg(e.atan2(nn));
        let expect = -bearing_east;
        let c = Coordinates::new(Latitude::try_from(lat).unwrap(), Longitude::try_from(lon).unwrap(), Elevation::try_from(elev).unwrap());
        let q = Qibla::new(c);
        let got = q.degrees();
        let mut diff = (got - expect).abs();
        if diff > 180. {
            diff = 360. - diff;
        }
        // near the Kaaba / antipode the bearing is ill-conditioned: 1e-6 deg scaled by 1/sin(distance)
        let tol = 1e-6 / ra::rad(ang).sin().abs().max(1e-3);
        if !(diff <= tol) || !(got > -180.0000001 && got <= 180.0000001) {
            rep.fail(json!({"key": "c16-bearing", "lat": lat, "lon": lon, "got": got, "expected": expect}));
        }
        if (q.rotation() == Rotation::Cw) != (got < 0.) {
            rep.fail(json!({"key": "c16-rotation", "lat": lat, "lon": lon, "degrees": got}));
        }
        let s = q.to_string();
        let want = format!("{:.1}° {}", got.abs(), if got < 0. { "CW" } else { "CCW" });
        if s != want {
            rep.fail(json!({"key": "c16-display", "lat": lat, "lon": lon, "text": s, "expected": want}));
        }
        if elev != 0. {
            let c0 = Coordinates::new(Latitude::try_from(lat).unwrap(), Longitude::try_from(lon).unwrap(), Elevation::try_from(0.).unwrap());
            if Qibla::new(c0).degrees().to_bits() != got.to_bits() {
                rep.fail(json!({"key": "c16-elevation", "lat": lat, "lon": lon, "elev": elev}));
            }
        }
        if q.coords() != c {
            rep.fail(json!({"key": "c16-coords", "lat": lat, "lon": lon}));
        }
    };
    for k in 0..n {
        let lat = rng.range(-89.999, 89.999);
        let lon = match k % 9 {
            0 => 180.,
            1 => -180.,
            2 => klon,
            3 => klon - 180.,
            _ => rng.range(-180., 180.),
        };
        let elev = if k % 3 == 0 { rng.range(-420., 8848.) } else { 0. };
        check(&mut rep, lat, lon, elev);
    }
    let mut lat = -89.;
    while lat <= 89. {
        let mut lon = -180.;
        while lon <= 180. {
            check(&mut rep, lat, lon, 0.);
            lon += 1.;
        }
        lat += 1.;
    }
    rep.distinct_nontrivial = rep.evaluations;
    rep.sample(json!({"lat": 39, "lon": -77, "expected_bearing_east_of_north": 56.6}));
    rep
}

// ------------------------------------------------------------------------------ C09
/// nearest date (earlier on ties) on which both Fajr and Isha exist under policy None
fn nearest_good(p0: &Params, l: Location, d: NaiveDate) -> Option<NaiveDate> {
    for i in 0..=366i64 {
        for cand in [d - Duration::days(i), d + Duration::days(i)] {
            if let Ok(t) = calc(p0, l, cand, None) {
                if secs(&t, Prayer::Fajr).is_some() && secs(&t, Prayer::Isha).is_some() {
                    return Some(cand);
                }
            }
        }
    }
    None
}

pub fn c09_neargood(a: &Args) -> Report {
    let n = n_cases(a, 6000, 40_000);
    let mut rep = Report::new("c09_neargood", &format!("{} seeded cases 48<=|lat|<=64 in both hemispheres, every season incl. January/December in the southern summer and leap years, dates 1600..2399, angle methods; both nearest-good-day policies", n));
    let mut rng = Rng::new(a.seed ^ 0xC09);
    for k in 0..n {
        let mut c = any_case(&mut rng, k, 64., 2.);
        c.lat = rng.range(48., 64.) * if k % 2 == 0 { 1. } else { -1. };
        // half of the cases in the local summer, where twilight fails
        if k % 2 == 0 {
            let y = c.date.year();
            let (m0, span) = if c.lat > 0. { (5, 100) } else { (11, 100) };
            c.date = NaiveDate::from_ymd_opt(y, m0, 1).unwrap() + Duration::days(rng.below(span) as i64);
            if c.date.year() > 2399 { c.date = NaiveDate::from_ymd_opt(2399, 12, 31).unwrap(); }
        }
        let m = ANGLE_METHODS[(k % 6) as usize];
        let p0 = params(m, E::None);
        let t0 = match calc(&p0, c.loc(), c.date, None) {
            Ok(t) => t,
            Err(_) => continue,
        };
        let fajr_ok = secs(&t0, Prayer::Fajr).is_some();
        let isha_ok = secs(&t0, Prayer::Isha).is_some();
        rep.evaluations += 1;
        let all = k % 3 == 0;
        let pol = if all { E::NearestGoodDayAllPrayersAlways } else { E::NearestGoodDayFajrIshaInvalid };
        let p1 = params(m, pol);
        let t1 = match calc(&p1, c.loc(), c.date, None) {
            Ok(t) => t,
            Err(_) => {
                rep.fail(json!({"key": "c09-panic", "case": c.json()}));
                continue;
            }
        };
        if fajr_ok && isha_ok && !all {
            // identity on good days (C08)
            for pr in [Prayer::Fajr, Prayer::Isha] {
                if t1.get(&pr) != t0.get(&pr) {
                    rep.fail(json!({"key": "c08-identity-on-good-day", "case": c.json(), "prayer": format!("{:?}", pr)}));
                }
            }
            continue;
        }
        let good = match nearest_good(&p0, c.loc(), c.date) {
            Some(g) => g,
            None => continue, // no good day within a year: outside the property's quantification
        };
        let tg = calc(&p0, c.loc(), good, None).unwrap();
        rep.distinct_nontrivial += 1;
        let keys: Vec<Prayer> = if all {
            vec![Prayer::Fajr, Prayer::Shurooq, Prayer::Dhuhr, Prayer::Asr, Prayer::Maghrib, Prayer::Isha]
        } else {
            let mut v = vec![];
            if !fajr_ok { v.push(Prayer::Fajr); }
            if !isha_ok { v.push(Prayer::Isha); }
            v
        };
        for pr in keys {
            match (t1.get(&pr), tg.get(&pr)) {
                (Some(Ok(x)), Some(Ok(y))) => {
                    if x.time != y.time || !x.extreme {
                        rep.fail(json!({"key": "c09-not-nearest-good-day", "case": c.json(), "method": format!("{:?}", m), "policy": format!("{:?}", pol), "prayer": format!("{:?}", pr), "got": x.time.to_string(), "flagged": x.extreme, "nearest_good_date": good.to_string(), "expected": y.time.to_string()}));
                    }
                }
                (Some(Err(())), Some(Ok(y))) => rep.fail(json!({"key": "c09-still-invalid", "case": c.json(), "method": format!("{:?}", m), "policy": format!("{:?}", pol), "prayer": format!("{:?}", pr), "nearest_good_date": good.to_string(), "expected": y.time.to_string()})),
                _ => {}
            }
        }
    }
    rep.sample(json!({"lat": -60, "lon": 0, "gmt": 0, "date": "2023-01-05", "method": "Mwl", "policy": "NearestGoodDayFajrIshaInvalid"}));
    rep
}
