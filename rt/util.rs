//! small deterministic PRNG (splitmix64) so sweeps depend only on VERIF_SEED
pub struct Rng(pub u64);
impl Rng {
    pub fn new(seed: u64) -> Self {
        Rng(seed.wrapping_mul(0x9E3779B97F4A7C15).wrapping_add(0x1234567))
    }
    pub fn next(&mut self) -> u64 {
        self.0 = self.0.wrapping_add(0x9E3779B97F4A7C15);
        let mut z = self.0;
        z = (z ^ (z >> 30)).wrapping_mul(0xBF58476D1CE4E5B9);
        z = (z ^ (z >> 27)).wrapping_mul(0x94D049BB133111EB);
        z ^ (z >> 31)
    }
    /// uniform in [0,1)
    pub fn unit(&mut self) -> f64 {
        (self.next() >> 11) as f64 / (1u64 << 53) as f64
    }
    pub fn range(&mut self, lo: f64, hi: f64) -> f64 {
        lo + (hi - lo) * self.unit()
    }
    pub fn below(&mut self, n: u64) -> u64 {
        self.next() % n
    }
}
