//! C14 bounded stand-in: num_days / partition / prayer_times_dt_rng on concrete ranges
//! through the real chrono and the real BTreeMap.
use super::{util::Rng, Args, Report};
use crate::geo::coordinates::{Coordinates, Elevation, Gmt, Latitude, Location, Longitude};
use crate::prayer_times::{date::DateRange, params::{Method, Params}, prayer_times_dt, prayer_times_dt_rng};
use chrono::{Datelike, Duration, NaiveDate};
use serde_json::json;

fn check_partition(rep: &mut Report, s: NaiveDate, e: NaiveDate, count: usize) {
    let r = DateRange::from(s..=e);
    let parts = std::panic::catch_unwind(|| r.partition(count));
    rep.evaluations += 1;
    let parts = match parts {
        Ok(p) => p,
        Err(_) => {
            rep.fail(json!({"what": "partition panicked", "start": s.to_string(), "end": e.to_string(), "count": count}));
            return;
        }
    };
    let bad = |why: &str| json!({"what": "partition", "why": why, "start": s.to_string(), "end": e.to_string(), "count": count, "parts": parts.iter().map(|p| p.to_string()).collect::<Vec<_>>()});
    if count < 2 {
        if parts.len() != 1 || parts[0] != r {
            rep.fail(bad("count<2 must return the range itself"));
        }
        return;
    }
    if e < s {
        if !parts.is_empty() {
            rep.fail(bad("empty range must give no parts"));
        }
        return;
    }
    if parts.is_empty() || parts.len() > count.max(1) {
        rep.fail(bad("number of parts"));
        return;
    }
    if *parts[0].start_date() != s || *parts[parts.len() - 1].end_date() != e {
        rep.fail(bad("union is not the range"));
    }
    for i in 0..parts.len() {
        if parts[i].start_date() > parts[i].end_date() {
            rep.fail(bad("empty part"));
        }
        if i + 1 < parts.len() && *parts[i + 1].start_date() != *parts[i].end_date() + Duration::days(1) {
            rep.fail(bad("not contiguous / overlapping"));
        }
    }
    rep.distinct_nontrivial += 1;
}

pub fn ranges(a: &Args) -> Report {
    let max_span: i64 = if a.thorough { 2000 } else { 400 };
    let mut rep = Report::new(
        "c14_ranges",
        &format!("num_days on 200k seeded date pairs (years 1..9999) + all offsets -40..=40 around 60 anchors; partition for spans -3..={} x counts 0..=64 on seeded starts; prayer_times_dt_rng vs prayer_times_dt for spans -5..={} days", max_span, max_span),
    );
    let mut rng = Rng::new(a.seed);
    let anchor = |rng: &mut Rng| {
        let y = 1 + rng.below(9998) as i32;
        NaiveDate::from_yo_opt(y, 1 + rng.below(365) as u32).unwrap()
    };
    // num_days vs chrono's independent day number
    for i in 0..200_000u64 {
        let s = anchor(&mut rng);
        let e = if i % 2 == 0 { anchor(&mut rng) } else { s + Duration::days(rng.below(81) as i64 - 40) };
        let expect = (e.num_days_from_ce() as i64 - s.num_days_from_ce() as i64 + 1).max(0);
        rep.evaluations += 1;
        let got = DateRange::from(s..=e).num_days();
        if got as i128 != expect as i128 {
            rep.fail(json!({"what": "num_days", "start": s.to_string(), "end": e.to_string(), "got": got.to_string(), "expected": expect}));
        }
        if e < s {
            rep.distinct_nontrivial += 1;
        }
    }
    // partition
    let starts = [
        NaiveDate::from_ymd_opt(2023, 12, 20).unwrap(),
        NaiveDate::from_ymd_opt(2024, 2, 25).unwrap(),
        NaiveDate::from_ymd_opt(1900, 2, 20).unwrap(),
        NaiveDate::from_ymd_opt(1600, 1, 1).unwrap(),
        // the Gregorian switch inside the Julian-Day formula (1582-10-15) and the year 1 / year 0 boundary
        NaiveDate::from_ymd_opt(1582, 10, 1).unwrap(),
        NaiveDate::from_ymd_opt(0, 12, 20).unwrap(),
        anchor(&mut rng),
    ];
    for s in starts.iter().take(5) {
        let mut span = -3i64;
        while span <= max_span {
            let e = *s + Duration::days(span - 1);
            for count in 0..=64usize {
                check_partition(&mut rep, *s, e, count);
            }
            span += if span < 70 { 1 } else { 37 };
        }
    }
    rep.sample(json!({"partition": {"start": "2023-12-20", "span_days": 10, "count": 3}}));
    // range API vs single-date API
    let loc = Location {
        coords: Coordinates::new(Latitude::try_from(39.).unwrap(), Longitude::try_from(-77.).unwrap(), Elevation::try_from(0.).unwrap()),
        gmt: Gmt::try_from(-5.).unwrap(),
    };
    let params = Params::new(Method::Isna);
    let mut spans: Vec<i64> = vec![-5, -2, -1, 0, 1, 2, 3, 28, 29, 31, 59, 60, 365, 366, 367, max_span];
    for _ in 0..6 {
        spans.push(rng.below(max_span as u64) as i64);
    }
    // high latitudes across the edge of the no-twilight season with the library's default parameters: the
    // per-day result must not depend on what was computed for earlier days of the range
    let hl = [(58.3, -134.4, -9., NaiveDate::from_ymd_opt(2022, 7, 10).unwrap(), 60i64), (-54.8, -68.3, -3., NaiveDate::from_ymd_opt(2023, 1, 15).unwrap(), 60),
              (65.0, 25.5, 2., NaiveDate::from_ymd_opt(2024, 4, 1).unwrap(), 45), (52.0, 0., 0., NaiveDate::from_ymd_opt(2023, 5, 10).unwrap(), 40)];
    for (lat, lon, gmt, s, span) in hl.iter() {
        for m in [Method::None, Method::Isna, Method::Mwl, Method::UmmAlQurra] {
            let l = Location { coords: Coordinates::new(Latitude::try_from(*lat).unwrap(), Longitude::try_from(*lon).unwrap(), Elevation::try_from(0.).unwrap()), gmt: Gmt::try_from(*gmt).unwrap() };
            let p = Params::new(m);
            let e = *s + Duration::days(*span - 1);
            rep.evaluations += 1;
            let got = prayer_times_dt_rng(&p, l, &DateRange::from(*s..=e));
            let mut d = *s;
            for _ in 0..*span {
                if got.get(&d) != Some(&prayer_times_dt(&p, l, d, None)) {
                    rep.fail(json!({"what": "prayer_times_dt_rng", "why": "entry differs from prayer_times_dt", "date": d.to_string(), "lat": lat, "method": format!("{:?}", m), "range_start": s.to_string()}));
                    break;
                }
                d = d + Duration::days(1);
            }
            rep.distinct_nontrivial += 1;
        }
    }
    for (k, span) in spans.iter().enumerate() {
        let s = starts[k % starts.len()];
        let e = s + Duration::days(*span - 1);
        let r = DateRange::from(s..=e);
        rep.evaluations += 1;
        let got = prayer_times_dt_rng(&params, loc, &r);
        let n = (*span).max(0) as usize;
        if got.len() != n {
            rep.fail(json!({"what": "prayer_times_dt_rng", "why": "number of entries", "start": s.to_string(), "end": e.to_string(), "got": got.len(), "expected": n}));
            continue;
        }
        let mut d = s;
        for _ in 0..n {
            match got.get(&d) {
                None => rep.fail(json!({"what": "prayer_times_dt_rng", "why": "missing date", "date": d.to_string()})),
                Some(v) => {
                    if *v != prayer_times_dt(&params, loc, d, None) {
                        rep.fail(json!({"what": "prayer_times_dt_rng", "why": "entry differs from prayer_times_dt", "date": d.to_string()}));
                    }
                }
            }
            d = d + Duration::days(1);
        }
        rep.distinct_nontrivial += 1;
    }
    let _ = starts[0].year();
    rep
}
