//! C18 bounded corpus: the real f64::from_str and the real serde_json on concrete
//! strings / documents. The proof side covers all f64; this covers the two trusted
//! front ends (decimal parser, JSON lexer) on a fixed corpus + seeded random decimals.
use super::{util::Rng, Args, Report};
use crate::geo::coordinates::{Coordinates, Elevation, Gmt, Latitude, Location, Longitude};
use crate::geo::weather::{Pressure, Temperature, Weather};
use serde_json::json;
use std::str::FromStr;

fn next_up(x: f64) -> f64 {
    if x == 0. {
        return f64::from_bits(1);
    }
    let b = x.to_bits();
    f64::from_bits(if x > 0. { b + 1 } else { b - 1 })
}
fn next_down(x: f64) -> f64 {
    -next_up(-x)
}

fn in_range(v: f64, lo: f64, hi: f64) -> bool {
    v.is_finite() && lo <= v && v <= hi
}

macro_rules! one_type {
    ($rep:expr, $ty:ty, $name:expr, $lo:expr, $hi:expr, $has_text:expr, $strings:expr) => {{
        for s in $strings.iter() {
            $rep.evaluations += 1;
            let parsed: Option<f64> = s.parse::<f64>().ok();
            let expect = match parsed {
                Some(v) => in_range(v, $lo, $hi),
                None => false,
            };
            // number route
            if let Some(v) = parsed {
                let n = std::panic::catch_unwind(|| <$ty as TryFrom<f64>>::try_from(v));
                match n {
                    Ok(r) => {
                        if r.is_ok() != expect {
                            $rep.fail(json!({"type": $name, "route": "number", "input": s, "accepted": r.is_ok(), "expected": expect}));
                        }
                        if let Ok(x) = r {
                            if f64::from(x).to_bits() != v.to_bits() {
                                $rep.fail(json!({"type": $name, "route": "number", "input": s, "why": "not bit-identical"}));
                            }
                        }
                    }
                    Err(_) => $rep.fail(json!({"type": $name, "route": "number", "input": s, "why": "panic"})),
                }
            }
            // JSON route: a JSON number only if the text is valid JSON number syntax; else must be rejected
            let j = std::panic::catch_unwind(|| serde_json::from_str::<$ty>(s));
            match j {
                Ok(r) => {
                    let json_num: Option<f64> = serde_json::from_str::<f64>(s).ok();
                    let jexpect = match json_num {
                        Some(v) => in_range(v, $lo, $hi),
                        None => false,
                    };
                    if r.is_ok() != jexpect {
                        $rep.fail(json!({"type": $name, "route": "json", "input": s, "accepted": r.is_ok(), "expected": jexpect}));
                    }
                    if let (Ok(x), Some(v)) = (r, json_num) {
                        if f64::from(x).to_bits() != v.to_bits() {
                            $rep.fail(json!({"type": $name, "route": "json", "input": s, "why": "not bit-identical"}));
                        }
                    }
                }
                Err(_) => $rep.fail(json!({"type": $name, "route": "json", "input": s, "why": "panic"})),
            }
            if expect {
                $rep.distinct_nontrivial += 1;
            }
        }
    }};
}

macro_rules! text_type {
    ($rep:expr, $ty:ty, $name:expr, $lo:expr, $hi:expr, $strings:expr) => {{
        for s in $strings.iter() {
            $rep.evaluations += 1;
            let parsed: Option<f64> = s.parse::<f64>().ok();
            let expect = match parsed {
                Some(v) => in_range(v, $lo, $hi),
                None => false,
            };
            let t = std::panic::catch_unwind(|| <$ty as FromStr>::from_str(s));
            match t {
                Ok(r) => {
                    if r.is_ok() != expect {
                        $rep.fail(json!({"type": $name, "route": "text", "input": s, "accepted": r.is_ok(), "expected": expect}));
                    }
                    if let (Ok(x), Some(v)) = (r, parsed) {
                        if f64::from(x).to_bits() != v.to_bits() {
                            $rep.fail(json!({"type": $name, "route": "text", "input": s, "why": "not bit-identical"}));
                        }
                    }
                }
                Err(_) => $rep.fail(json!({"type": $name, "route": "text", "input": s, "why": "panic"})),
            }
        }
    }};
}

fn strings_for(lo: f64, hi: f64, rng: &mut Rng, n_rand: usize) -> Vec<String> {
    let mut v: Vec<String> = vec![];
    for b in [lo, hi] {
        for x in [b, next_up(b), next_down(b), b + 0.1, b - 0.1, b * 2., b + 1e-9, b - 1e-9] {
            v.push(format!("{:?}", x));
            v.push(format!("{:e}", x));
            v.push(format!("{}", x));
        }
        v.push(format!("{}", b as i64));
        v.push(format!("{}", b as i64 + 1));
        v.push(format!("{}", b as i64 - 1));
    }
    for s in [
        "0", "-0", "0.0", "-0.0", "+0", "1", "+1", "1.", ".5", "-.5", "1e0", "1E0", "1e-320", "-1e-320", "4.9e-324",
        "1e308", "1e309", "-1e309", "1e400", "NaN", "nan", "-NaN", "inf", "-inf", "Infinity", "-Infinity", "infinity",
        "", " ", " 1", "1 ", "\t1", "1\n", "1,0", "1_0", "0x10", "1e", "e1", "--1", "+-1", "1..0", "abc", "1a", "١",
        "1.0.0", "9007199254740993", "18446744073709551615", "18446744073709551616", "-9223372036854775808",
        "-9223372036854775809", "123456789012345678901234567890", "0.1e1", "10e-1", "00", "01", "-01", "1e+2", "1e-2",
        "null", "true", "\"1\"", "[1]", "{}", "1.0e", "1.e1", "-", "+", ".", "1/2",
    ] {
        v.push(s.to_string());
    }
    // malformed text with multi-byte characters at every byte offset (error paths that echo or slice the input)
    for n in 0..40usize {
        v.push(format!("{}\u{00b0}W", "1".repeat(n)));
        v.push(format!("{}\u{2212}5", "7".repeat(n)));
        v.push(format!("{}.{}\u{00b0} W", n, "1".repeat(n)));
    }
    v.push("77.208591400000\u{00b0}W".to_string());
    v.push("\u{1F54B}".repeat(9));
    for _ in 0..n_rand {
        let x = match rng.below(4) {
            0 => rng.range(lo - 1., hi + 1.),
            1 => rng.range(lo * 3. - 5., hi * 3. + 5.),
            2 => f64::from_bits(rng.next()),
            _ => {
                let b = if rng.below(2) == 0 { lo } else { hi };
                let mut y = b;
                for _ in 0..rng.below(4) {
                    y = if rng.below(2) == 0 { next_up(y) } else { next_down(y) };
                }
                y
            }
        };
        match rng.below(3) {
            0 => v.push(format!("{:?}", x)),
            1 => v.push(format!("{:e}", x)),
            _ => v.push(format!("{:.*}", rng.below(12) as usize, x)),
        }
    }
    v
}

pub fn corpus(a: &Args) -> Report {
    let n_rand = if a.thorough { 200_000 } else { 20_000 };
    let mut rep = Report::new(
        "c18_corpus",
        &format!("fixed corpus of ~140 strings per type + {} seeded random decimal renderings per type; 6 types; composite documents", n_rand),
    );
    let mut rng = Rng::new(a.seed);
    let s = strings_for(-90., 90., &mut rng, n_rand);
    one_type!(rep, Latitude, "Latitude", -90., 90., true, s);
    text_type!(rep, Latitude, "Latitude", -90., 90., s);
    let s = strings_for(-180., 180., &mut rng, n_rand);
    one_type!(rep, Longitude, "Longitude", -180., 180., true, s);
    text_type!(rep, Longitude, "Longitude", -180., 180., s);
    let s = strings_for(-420., 8848., &mut rng, n_rand);
    one_type!(rep, Elevation, "Elevation", -420., 8848., true, s);
    text_type!(rep, Elevation, "Elevation", -420., 8848., s);
    let s = strings_for(-12., 12., &mut rng, n_rand);
    one_type!(rep, Gmt, "Gmt", -12., 12., true, s);
    text_type!(rep, Gmt, "Gmt", -12., 12., s);
    let s = strings_for(100., 1050., &mut rng, n_rand);
    one_type!(rep, Pressure, "Pressure", 100., 1050., false, s);
    let s = strings_for(-90., 57., &mut rng, n_rand);
    one_type!(rep, Temperature, "Temperature", -90., 57., false, s);
    rep.sample(json!({"type": "Latitude", "inputs": ["90", "90.00000000000001", "-9e1", "NaN", " 1"]}));

    // composite documents: every embedded quantity is validated
    let good = json!({"coords": {"latitude": 39.0, "longitude": -77.0, "elevation": 0.0}, "gmt": -5.0});
    let fields: [(&[&str], f64, f64); 4] = [
        (&["coords", "latitude"], -90., 90.),
        (&["coords", "longitude"], -180., 180.),
        (&["coords", "elevation"], -420., 8848.),
        (&["gmt"], -12., 12.),
    ];
    for (path, lo, hi) in fields.iter() {
        for x in [*lo, *hi, next_up(*hi), next_down(*lo), *hi + 1., *lo - 1., 1e300, -1e300] {
            let mut doc = good.clone();
            {
                let mut cur = &mut doc;
                for k in path.iter() {
                    cur = cur.get_mut(*k).unwrap();
                }
                *cur = json!(x);
            }
            rep.evaluations += 1;
            let r = serde_json::from_value::<Location>(doc.clone());
            if r.is_ok() != in_range(x, *lo, *hi) {
                rep.fail(json!({"type": "Location", "route": "json", "input": doc, "accepted": r.is_ok()}));
            }
            rep.distinct_nontrivial += 1;
        }
    }
    let wgood = json!({"pressure": 1010.0, "temperature": 14.0});
    for (k, lo, hi) in [("pressure", 100., 1050.), ("temperature", -90., 57.)] {
        for x in [lo, hi, next_up(hi), next_down(lo), hi + 1., lo - 1., 5000., -5000.] {
            let mut doc = wgood.clone();
            doc[k] = json!(x);
            rep.evaluations += 1;
            let r = serde_json::from_value::<Weather>(doc.clone());
            if r.is_ok() != in_range(x, lo, hi) {
                rep.fail(json!({"type": "Weather", "route": "json", "input": doc, "accepted": r.is_ok()}));
            }
            rep.distinct_nontrivial += 1;
        }
    }
    // Params documents embed a Latitude in the nearest-latitude policies
    let p = crate::prayer_times::params::Params::new(crate::prayer_times::params::Method::Mwl);
    let mut pdoc = serde_json::to_value(&p).unwrap();
    for x in [48.5, 90., -90., 90.5, -91., 1e9] {
        pdoc["extreme_latitude_method"] = json!({"NearestLatitudeAllPrayersAlways": x});
        rep.evaluations += 1;
        let r = serde_json::from_value::<crate::prayer_times::params::Params>(pdoc.clone());
        if r.is_ok() != in_range(x, -90., 90.) {
            rep.fail(json!({"type": "Params", "route": "json", "nearest_latitude": x, "accepted": r.is_ok()}));
        }
        rep.distinct_nontrivial += 1;
    }
    let _ = (Coordinates::new, Gmt::from_str, Pressure::try_from(1010.), Temperature::try_from(1.), Elevation::try_from(1.), Longitude::try_from(1.));
    rep
}
