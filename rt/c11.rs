//! C11 bounded stand-in: every second of the day (x sub-second fractions x offsets that
//! push the intermediate hour negative or past 24 h) through the real hour_to_time,
//! each rounding mode against the fixed function of the None-mode result.
use super::{util::Rng, Args, Report};
use crate::prayer_times::verif_rt_child::x_hour_to_time;
use crate::prayer_times::params::{Method, Params, RoundSeconds};
use crate::prayer_times::Prayer;
use chrono::Timelike;
use serde_json::json;

const FIVE: [Prayer; 5] = [Prayer::Fajr, Prayer::Dhuhr, Prayer::Asr, Prayer::Maghrib, Prayer::Isha];

fn sec_frac(h: f64) -> f64 {
    let mut hw = h;
    while hw < 0. {
        hw += 24.;
    }
    let m = (hw - hw.floor()) * 60.;
    (m - m.floor()) * 60.
}

pub fn check_one(rep: &mut Report, mode: RoundSeconds, prayer: Prayer, hour: f64, off: f64) {
    let mut p0 = Params::new(Method::Mwl);
    p0.round_seconds = RoundSeconds::None;
    p0.minutes.insert(prayer, off);
    let mut p1 = p0.clone();
    p1.round_seconds = mode;
    rep.evaluations += 1;
    let r = std::panic::catch_unwind(|| (x_hour_to_time(&p0, prayer, hour).num_seconds_from_midnight(), x_hour_to_time(&p1, prayer, hour).num_seconds_from_midnight()));
    let (t0, t1) = match r {
        Ok(x) => x,
        Err(_) => {
            rep.fail(json!({"key": "panic", "why": "panic", "mode": format!("{:?}", mode), "prayer": format!("{:?}", prayer), "hour": hour, "offset_min": off}));
            return;
        }
    };
    // None mode keeps the truncated second of the (wrapped) instant: independent of the code's own arithmetic
    {
        let inst = (hour + off / 60.).rem_euclid(24.) * 3600.;
        let d = (t0 as f64 - inst.floor()).abs();
        let d = d.min(86400. - d);
        if d > 1. {
            rep.fail(json!({"key": "c11-none-truncation", "prayer": format!("{:?}", prayer), "hour": hour, "offset_min": off,
                "unrounded": format!("{:02}:{:02}:{:02}", t0 / 3600, t0 / 60 % 60, t0 % 60), "instant_seconds_of_day": inst}));
        }
    }
    let five = FIVE.contains(&prayer);
    let (idx0, s0) = (t0 / 60, t0 % 60);
    let up = match mode {
        RoundSeconds::NormalRounding => s0 >= 30,
        RoundSeconds::SpecialRounding => five && s0 >= 30,
        RoundSeconds::AggressiveRounding => five && s0 >= 1,
        RoundSeconds::None => false,
    };
    let expect = if mode == RoundSeconds::None { t0 } else { ((idx0 + up as u32) % 1440) * 60 };
    if t1 != expect {
        let band = sec_frac(hour + off / 60.) >= 59.999;
        rep.fail(json!({"key": if band { "c11-1ms-band-below-minute-boundary" } else { "c11-rounding" },
            "mode": format!("{:?}", mode), "prayer": format!("{:?}", prayer), "hour": hour, "offset_min": off,
            "unrounded": format!("{:02}:{:02}:{:02}", t0 / 3600, t0 / 60 % 60, t0 % 60),
            "got": format!("{:02}:{:02}:{:02}", t1 / 3600, t1 / 60 % 60, t1 % 60),
            "expected": format!("{:02}:{:02}:{:02}", expect / 3600, expect / 60 % 60, expect % 60)}));
    }
}

pub fn seconds(a: &Args) -> Report {
    let mut rep = Report::new("c11_seconds", "every second of the day x fractions {0,.25,.5,.999} x 3 modes x {five prayers, Shurooq} with offsets {0, -1500, +1500, seeded}; plus seeded random instants in [-96,120) h");
    let mut rng = Rng::new(a.seed);
    let modes = [RoundSeconds::NormalRounding, RoundSeconds::SpecialRounding, RoundSeconds::AggressiveRounding];
    let fr = [0.0, 0.25, 0.5, 0.999];
    // the recorded known finding (known_findings.txt) is exercised on every run, whatever the seed
    check_one(&mut rep, RoundSeconds::NormalRounding, Prayer::Fajr, 8.033333333333333, 0.);
    let stride = if a.thorough { 1 } else { 3 };
    let mut t = (a.seed % stride as u64) as u32;
    while t < 86400 {
        for f in fr.iter() {
            let hour = (t as f64 + f) / 3600.;
            let prayer = if t % 7 == 0 { Prayer::Shurooq } else { FIVE[(t % 5) as usize] };
            let mode = modes[(t % 3) as usize];
            let off = match t % 4 {
                0 => 0.,
                1 => -1500.,
                2 => 1500.,
                _ => (rng.below(3001) as f64) - 1500.,
            };
            // two thirds: keep the unrounded instant at second t by compensating the offset in the hour (the
            // intermediate sum is then formed from a negative or > 24 h operand); one third: let the offset really
            // push the intermediate hour below 0 or past 24 h
            if t % 3 == 0 {
                check_one(&mut rep, mode, prayer, hour, off);
            } else {
                check_one(&mut rep, mode, prayer, hour - off / 60., off);
            }
            rep.distinct_nontrivial += 1;
        }
        t += stride;
    }
    let n = if a.thorough { 2_000_000 } else { 200_000 };
    for _ in 0..n {
        let hour = rng.range(-96., 120.);
        let prayer = if rng.below(6) == 0 { Prayer::Shurooq } else { FIVE[rng.below(5) as usize] };
        check_one(&mut rep, modes[rng.below(3) as usize], prayer, hour, 0.);
    }
    rep.sample(json!({"mode": "NormalRounding", "prayer": "Isha", "hour": 23.9999, "offset_min": 0}));
    rep
}
