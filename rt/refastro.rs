//! Independent reference astronomy for the bounded stand-ins (never used by the library):
//! low-precision apparent Sun (Meeus, Astronomical Algorithms ch. 25, with the short
//! nutation series of ch. 22), apparent sidereal time (ch. 12), altitude, and the
//! Fliegel / Van Flandern Julian Day Number in integer arithmetic.
//! Accuracy: ~0.01 deg in longitude, i.e. ~2-3 s of time in hour angle, against the
//! 10 s / 0.05 deg tolerances of the properties.
use chrono::{Datelike, NaiveDate};

pub fn rad(d: f64) -> f64 {
    d * std::f64::consts::PI / 180.
}
pub fn deg(r: f64) -> f64 {
    r * 180. / std::f64::consts::PI
}
pub fn norm360(x: f64) -> f64 {
    let r = x % 360.;
    if r < 0. {
        r + 360.
    } else {
        r
    }
}
pub fn norm180(x: f64) -> f64 {
    let r = norm360(x);
    if r > 180. {
        r - 360.
    } else {
        r
    }
}

/// Julian Day Number (at noon) of a proleptic Gregorian date, integer arithmetic (Fliegel & Van Flandern)
pub fn jdn(date: NaiveDate) -> i64 {
    let (y, m, d) = (date.year() as i64, date.month() as i64, date.day() as i64);
    let a = (14 - m) / 12;
    let yy = y + 4800 - a;
    let mm = m + 12 * a - 3;
    d + (153 * mm + 2) / 5 + 365 * yy + yy / 4 - yy / 100 + yy / 400 - 32045
}
/// Julian Day (UT) of local midnight starting `date` in a zone `gmt` hours east of Greenwich
pub fn jd_local_midnight(date: NaiveDate, gmt: f64) -> f64 {
    jdn(date) as f64 - 0.5 - gmt / 24.
}

pub struct Sun {
    /// apparent right ascension, degrees [0,360)
    pub ra: f64,
    /// apparent declination, degrees
    pub dec: f64,
    /// apparent sidereal time at Greenwich, degrees [0,360)
    pub gast: f64,
}

/// apparent geocentric Sun and apparent Greenwich sidereal time at Julian Day `jd` (UT ~ TT here:
/// the ~1-2 minute Delta-T moves the Sun by < 0.001 deg)
pub fn sun(jd: f64) -> Sun {
    let t = (jd - 2451545.0) / 36525.;
    let l0 = 280.46646 + 36000.76983 * t + 0.0003032 * t * t;
    let m = 357.52911 + 35999.05029 * t - 0.0001537 * t * t;
    let mr = rad(m);
    let c = (1.914602 - 0.004817 * t - 0.000014 * t * t) * mr.sin()
        + (0.019993 - 0.000101 * t) * (2. * mr).sin()
        + 0.000289 * (3. * mr).sin();
    let theta = l0 + c;
    let om = 125.04452 - 1934.136261 * t;
    let lm = 280.4665 + 36000.7698 * t;
    let lp = 218.3165 + 481267.8813 * t;
    // nutation in longitude / obliquity, arcseconds (Meeus ch. 22, low accuracy)
    let dpsi = -17.20 * rad(om).sin() - 1.32 * rad(2. * lm).sin() - 0.23 * rad(2. * lp).sin() + 0.21 * rad(2. * om).sin();
    let deps = 9.20 * rad(om).cos() + 0.57 * rad(2. * lm).cos() + 0.10 * rad(2. * lp).cos() - 0.09 * rad(2. * om).cos();
    let eps0 = 23. + 26. / 60. + 21.448 / 3600. - (46.8150 * t + 0.00059 * t * t - 0.001813 * t * t * t) / 3600.;
    let eps = eps0 + deps / 3600.;
    // apparent longitude: aberration -20.4898"/R, R ~ 1
    let lambda = theta + dpsi / 3600. - 0.005693;
    let (lr, er) = (rad(lambda), rad(eps));
    let ra = norm360(deg((er.cos() * lr.sin()).atan2(lr.cos())));
    let dec = deg((er.sin() * lr.sin()).asin());
    let gmst = 280.46061837 + 360.98564736629 * (jd - 2451545.0) + 0.000387933 * t * t - t * t * t / 38710000.;
    let gast = norm360(gmst + dpsi / 3600. * er.cos());
    Sun { ra, dec, gast }
}

/// local hour angle of the Sun (degrees, (-180,180], positive west) at UT Julian Day `jd`, east longitude `lon`
pub fn hour_angle(jd: f64, lon: f64) -> f64 {
    let s = sun(jd);
    norm180(s.gast + lon - s.ra)
}
/// geometric (airless, geocentric) altitude of the Sun's centre, degrees
pub fn altitude(jd: f64, lat: f64, lon: f64) -> f64 {
    let s = sun(jd);
    let h = rad(norm180(s.gast + lon - s.ra));
    let (p, d) = (rad(lat), rad(s.dec));
    deg((p.sin() * d.sin() + p.cos() * d.cos() * h.cos()).asin())
}
/// altitude from a given declination and hour angle (degrees)
pub fn alt_from(lat: f64, dec: f64, ha_deg: f64) -> f64 {
    let (p, d, h) = (rad(lat), rad(dec), rad(ha_deg));
    deg((p.sin() * d.sin() + p.cos() * d.cos() * h.cos()).asin().max(-std::f64::consts::FRAC_PI_2))
}
/// extreme (max, min) altitude of a body of declination `dec` at latitude `lat` over a day
pub fn alt_extremes(lat: f64, dec: f64) -> (f64, f64) {
    (90. - (lat - dec).abs(), -90. + (lat + dec).abs())
}
