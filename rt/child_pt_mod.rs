//! rtcheck accessors: re-export the accessor of the private sub-module hours
pub(crate) use super::hours::verif_rt_child::*;
