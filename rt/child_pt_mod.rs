//! rtcheck accessors: re-export the accessors of the private sub-modules of prayer_times
use super::*;
pub(crate) use super::hours::verif_rt_child::*;

pub(crate) fn x_get_imsaak(params: &Params, t: &TopAstroDay, w: Weather) -> Result<PrayerTime, ()> {
    get_imsaak(params, t, w)
}
pub(crate) fn x_get_hours_adj_ext(params: &Params, t: &TopAstroDay, w: Weather) -> std::collections::HashMap<Prayer, Result<PrayerHour, ()>> {
    get_hours_adj_ext(params, t, w)
}
